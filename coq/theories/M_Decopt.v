(* M_Decopt.v — executable model of the control flow of
   qlasskit/decompiler/decopt.py: circuit_boolean_optimizer (no preserve list).
   No proofs here.

   What the optimizer does with a circuit: decompile it into sections; for each
   section, LAST TO FIRST, simplify the expressions (sympy) and re-synthesise
   them (exprs_to_quantum); if the new gate list passes the acceptance test,
   assign it to the slice  gates[start:end]  of the copy that is returned.

   Simplification and re-synthesis are not modelled: their result is an INPUT of
   the model (what the run of the implementation produced for that section).
   The model fixes everything else: which sections exist and their index ranges
   (M_Decompiler.sections), the order of processing, the acceptance test and the
   slice assignment.  That the accepted gate lists act like the slices they
   replace is decided per run by the verified [circ_equiv] (P_Decopt.v).

   The acceptance test follows the code WITH the repair of
   /verif/proposed_fixes/C12_relabelling.diff (third conjunct); [accept_old] is
   the test before the repair. *)
From Coq Require Import List Bool NArith Arith.
From QV Require Import Bexp BexpTT Circ M_Decompiler.
Import ListNotations.

(* a re-synthesised section: qc_sec.gates, and whether every expression's symbol
   is still mapped to its own qubit in qc_sec (qc_sec[s] == qc[s] for all s) *)
Definition resynth := (circuit * bool)%type.

(* QCircuit.used_qubits *)
Definition used (c : circuit) : list nat := flat_map gqs c.
Definition subset_b (a b : list nat) : bool := forallb (fun x => existsb (Nat.eqb x) b) a.

(* NOT (len(new) > len(section.gates) or used(new) - section_qubits != {} or some symbol moved) *)
Definition accept (gs : circuit) (r : resynth) : bool :=
  Nat.leb (length (fst r)) (length gs) && subset_b (used (fst r)) (used gs) && snd r.
Definition accept_old (gs : circuit) (r : resynth) : bool :=
  Nat.leb (length (fst r)) (length gs) && subset_b (used (fst r)) (used gs).

(* qc_new.gates[s:e] = new   (0 <= s <= e <= len) *)
Definition splice (c : circuit) (s e : nat) (new : circuit) : circuit :=
  firstn s c ++ new ++ skipn e c.

Definition opt_step (acc_fn : circuit -> resynth -> bool) (sr : sec * resynth) (acc : circuit) : circuit :=
  match sr with
  | ((s, e, gs), r) => if acc_fn gs r then splice acc s e (fst r) else acc
  end.

(* [news]: the re-synthesised sections in SECTION order.  fold_right handles the
   last section first, as `for section in reversed(dc)` does. *)
Definition optimize_gen (acc_fn : circuit -> resynth -> bool) (c : circuit) (news : list resynth) : circuit :=
  fold_right (opt_step acc_fn) c (combine (sections c) news).

Definition optimize := optimize_gen accept.
Definition optimize_old := optimize_gen accept_old.
