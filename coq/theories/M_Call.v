(* M_Call.v — model of how a compiled function is used inside another one
   (qlasskit/ast2logic/env.py: Env.bind_function; t_expression.py: the "Known
   function" branch of translate_expression). Symbols are numbers; the caller's
   and the callee's symbols live in one numbering (the callee's are renamed by an
   injective map, as the name prefix does). *)
From Coq Require Import List Bool NArith Arith.
From QV Require Import Bexp BexpTT.
Import ListNotations.

(* simultaneous substitution (sympy xreplace) *)
Fixpoint bsubst (s : nat -> option bexp) (e : bexp) : bexp :=
  match e with
  | BConst b => BConst b
  | BSym i => match s i with Some e' => e' | None => BSym i end
  | BNot e => BNot (bsubst s e)
  | BAnd l => BAnd (map (bsubst s) l)
  | BOr l => BOr (map (bsubst s) l)
  | BXor l => BXor (map (bsubst s) l)
  | BIte c t e => BIte (bsubst s c) (bsubst s t) (bsubst s e)
  | BImp a b => BImp (bsubst s a) (bsubst s b)
  end.

(* renaming of every symbol (bind_function's exp_rename / arg_rename) *)
Definition brename (r : nat -> nat) (e : bexp) : bexp := bsubst (fun i => Some (BSym (r i))) e.

(* association-list substitutions *)
Fixpoint assoc (l : list (nat * bexp)) (i : nat) : option bexp :=
  match l with
  | [] => None
  | (k, e) :: r => if Nat.eqb k i then Some e else assoc r i
  end.

(* bind_function: compress the definition list so that every expression is over
   the formal symbols only (each definition has the earlier ones substituted in),
   keep the last [nret] *)
Fixpoint compress_go (d : list (nat * bexp)) (ds : defs) : list (nat * bexp) :=
  match ds with
  | [] => []
  | (s, e) :: r => let e' := bsubst (assoc d) e in (s, e') :: compress_go ((s, e') :: d) r
  end.
Definition compress (ds : defs) (nret : nat) : list (nat * bexp) :=
  let c := compress_go [] ds in skipn (length c - nret) c.

(* call site: formal bits (in order) replaced by the actual bit expressions *)
Definition call_site (formals : list nat) (actuals : list bexp) (rets : list (nat * bexp)) : list bexp :=
  map (fun se => bsubst (assoc (combine formals actuals)) (snd se)) rets.
