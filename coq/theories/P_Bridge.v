(* P_Bridge.v — the typed reference evaluator of M_Texp and the untyped reference evaluator of
   M_A2A agree in the EXACT (no wrap) regime, on the fragment [M_Bridge.conv_*] converts.

   Direction: typed  ==>  untyped.  If the converted term has the typed value tv and the typed
   evaluation was exact, the ORIGINAL (string-named, untyped) term has the Python value
   [erase tv], for every interpretation [ext] of non-builtin calls (none occurs in the fragment).

     bridge_exp    expressions
     bridge_body   statement lists (exec_list), keeping the relation between environments
     bridge_fun    function bodies on erased arguments
   No hypothesis on the numbering of names: [idn ns] is injective on the names it converts. *)
From Coq Require Import List Bool NArith ZArith Arith String Lia.
From QV Require Import Bits Bexp BexpTT M_Codec P_Codec Generated M_Types P_Types M_Texp P_Texp.
From QV Require M_A2A P_A2A.
From QV Require Import M_Bridge.
Import ListNotations.

(* ================================================================== *)
(* N / Z                                                               *)
(* ================================================================== *)
Lemma zN_eqb x y : (Z.of_N x =? Z.of_N y)%Z = (x =? y)%N.
Proof. destruct (N.eqb_spec x y), (Z.eqb_spec (Z.of_N x) (Z.of_N y)); try reflexivity; lia. Qed.
Lemma zN_ltb x y : (Z.of_N x <? Z.of_N y)%Z = (x <? y)%N.
Proof. destruct (N.ltb_spec x y), (Z.ltb_spec (Z.of_N x) (Z.of_N y)); try reflexivity; lia. Qed.
Lemma zN_leb x y : (Z.of_N x <=? Z.of_N y)%Z = (x <=? y)%N.
Proof. destruct (N.leb_spec x y), (Z.leb_spec (Z.of_N x) (Z.of_N y)); try reflexivity; lia. Qed.
Lemma zN_land x y : Z.of_N (N.land x y) = Z.land (Z.of_N x) (Z.of_N y).
Proof. destruct x, y; reflexivity. Qed.
Lemma zN_lor x y : Z.of_N (N.lor x y) = Z.lor (Z.of_N x) (Z.of_N y).
Proof. destruct x, y; reflexivity. Qed.
Lemma zN_lxor x y : Z.of_N (N.lxor x y) = Z.lxor (Z.of_N x) (Z.of_N y).
Proof. destruct x, y; reflexivity. Qed.
Lemma zN_pw k : Z.of_N (pw k) = (2 ^ Z.of_nat k)%Z.
Proof. unfold pw. now rewrite N2Z.inj_pow, nat_N_Z. Qed.

(* ================================================================== *)
(* names                                                               *)
(* ================================================================== *)
Lemma pos_inj ns : forall x y, known ns x = true -> pos x ns = pos y ns -> x = y.
Proof.
  induction ns as [|z ns IH]; intros x y Hx H; cbn [known existsb] in Hx; [discriminate|].
  cbn [pos] in H. destruct (String.eqb_spec x z) as [->|Hxz].
  - destruct (String.eqb_spec y z) as [->|]; [reflexivity|discriminate].
  - destruct (String.eqb_spec y z) as [->|]; [discriminate|].
    injection H as H. cbn [orb] in Hx. now apply IH.
Qed.
Lemma idn_inj ns x y : known ns x = true -> idn ns x = idn ns y -> x = y.
Proof. intros Hx H. injection H as H. now apply (pos_inj ns). Qed.
Lemma idn_eqb ns x y : known ns x = true -> Nat.eqb (idn ns x) (idn ns y) = String.eqb x y.
Proof.
  intros Hx. destruct (String.eqb_spec x y) as [->|Hn]; [apply Nat.eqb_refl|].
  apply Nat.eqb_neq. intros H. now apply Hn, (idn_inj ns).
Qed.
Lemma idn_ret ns x : Nat.eqb (idn ns x) ret_id = false.
Proof. reflexivity. Qed.

(* ================================================================== *)
(* operators                                                           *)
(* ================================================================== *)
Lemma pw_nz w : pw w <> 0%N.
Proof. unfold pw. apply N.pow_nonzero. discriminate. Qed.

Lemma bin_bool_bridge op o sh x y tv :
  conv_aop op = Some o -> eval_bin o sh (VB x) (VB y) = Some tv ->
  A.binop_val op (A.VBool x) (A.VBool y) = Some (erase tv).
Proof.
  destruct op; cbn [conv_aop]; intros [= <-]; cbn [eval_bin]; try discriminate; intros [= <-]; reflexivity.
Qed.

Lemma bin_int_bridge op o sh sk wl wr x y tv :
  conv_aop op = Some o ->
  eval_bin o sh (VI wl x) (VI wr y) = Some tv ->
  fits o sk wl wr x y = true ->
  match op with
  | A.LShift | A.RShift => exists k, sh = Some (Some k) /\ sk = Some k /\ y = N.of_nat k
  | _ => True
  end ->
  A.binop_val op (A.VInt (Z.of_N x)) (A.VInt (Z.of_N y)) = Some (erase tv).
Proof.
  destruct op; cbn [conv_aop]; intros [= <-]; cbn [eval_bin fits]; intros Hv Hf Hs;
    cbn [A.binop_val A.as_int].
  - (* Add *) injection Hv as <-. apply N.ltb_lt in Hf. cbn [erase].
    rewrite N.mod_small by exact Hf. now rewrite N2Z.inj_add.
  - (* Sub *) injection Hv as <-. apply andb_true_iff in Hf as [H1 H2].
    apply N.leb_le in H1. apply N.ltb_lt in H2. cbn [erase].
    replace (x + pw (Nat.max wl wr) - y)%N with ((x - y) + 1 * pw (Nat.max wl wr))%N by lia.
    rewrite N.mod_add by apply pw_nz. rewrite N.mod_small by exact H2. now rewrite N2Z.inj_sub.
  - (* Mult *) destruct ((0 <? wl)%nat && (0 <? wr)%nat); [|discriminate]. injection Hv as <-.
    apply N.ltb_lt in Hf. cbn [erase]. rewrite N.mod_small by exact Hf. now rewrite N2Z.inj_mul.
  - (* Mod *) destruct ((0 <? wr)%nat && is_pow2 y) eqn:E; [|discriminate]. injection Hv as <-.
    apply andb_true_iff in E as [_ E]. unfold is_pow2 in E. apply andb_true_iff in E as [E _].
    apply N.ltb_lt in E. destruct (Z.eqb_spec (Z.of_N y) 0) as [H0|_]; [lia|].
    cbn [erase]. now rewrite N2Z.inj_mod.
  - (* LShift *) destruct Hs as (k & -> & -> & ->). injection Hv as <-. apply N.ltb_lt in Hf.
    destruct (Z.ltb_spec (Z.of_N (N.of_nat k)) 0) as [H0|_]; [lia|]. cbn [erase].
    rewrite N.mod_small by exact Hf.
    rewrite Z.shiftl_mul_pow2 by lia. now rewrite N2Z.inj_mul, zN_pw, nat_N_Z.
  - (* RShift *) destruct Hs as (k & -> & -> & ->). injection Hv as <-.
    destruct (Z.ltb_spec (Z.of_N (N.of_nat k)) 0) as [H0|_]; [lia|]. cbn [erase].
    rewrite Z.shiftr_div_pow2 by lia. now rewrite N2Z.inj_div, zN_pw, nat_N_Z.
  - (* BitOr *) injection Hv as <-. cbn [erase]. now rewrite zN_lor.
  - (* BitXor *) injection Hv as <-. cbn [erase]. now rewrite zN_lxor.
  - (* BitAnd *) injection Hv as <-. cbn [erase]. now rewrite zN_land.
Qed.

(* induction over values (nested lists) *)
Section value_ind2.
  Variable P : value -> Prop.
  Hypotheses (Hb : forall b, P (VB b)) (Hi : forall w n, P (VI w n)) (Hf : forall i f n, P (VF i f n))
    (Hc : forall c, P (VC c)) (Ht : forall l, Forall P l -> P (VT l)).
  Fixpoint value_ind2 (v : value) : P v :=
    match v with
    | VB b => Hb b | VI w n => Hi w n | VF i f n => Hf i f n | VC c => Hc c
    | VT l => Ht l ((fix go (l : list value) : Forall P l :=
                       match l with [] => Forall_nil _ | x :: r => Forall_cons x (value_ind2 x) (go r) end) l)
    end.
End value_ind2.

(* on plain values of one type, qlasskit's == is Python's *)
Lemma value_eqb_erase : forall a b, plain a = true -> plain b = true -> type_of a = type_of b ->
  value_eqb a b = A.py_eq (erase a) (erase b).
Proof.
  induction a as [x|w x|i f x|c|l IH] using value_ind2; intros b Pa Pb Ht; try discriminate Pa;
    destruct b as [y|w' y|i' f' y|c'|m]; try discriminate Pb; try discriminate Ht.
  - reflexivity.
  - injection Ht as <-. cbn [value_eqb erase A.py_eq]. now rewrite Nat.eqb_refl, zN_eqb.
  - cbn [type_of] in Ht. injection Ht as Ht. cbn [plain] in Pa, Pb.
    revert m Pb Ht. induction IH as [|v l Hv _ IHl]; intros [|u m] Pb Ht; try discriminate Ht; [reflexivity|].
    cbn [forallb] in Pa, Pb. apply andb_true_iff in Pa as [Pa1 Pa2]. apply andb_true_iff in Pb as [Pb1 Pb2].
    cbn [map] in Ht. injection Ht as Ht1 Ht2.
    specialize (IHl Pa2 m Pb2 Ht2). simpl in IHl |- *. now rewrite (Hv u Pa1 Pb1 Ht1), IHl.
Qed.

Lemma cmp_bridge op o a b tv :
  conv_cop op = Some o -> eval_cmp o a b = Some tv -> cmp_kind a b = true ->
  A.cmp_val op (erase a) (erase b) = Some (erase tv).
Proof.
  intros Ho Hv Hk. destruct a as [x|wl x| | |l]; try discriminate; destruct b as [y|wr y| | |m]; try discriminate.
  - destruct op; cbn [conv_cop] in Ho; try discriminate; injection Ho as <-;
      cbn [eval_cmp] in Hv; try discriminate; injection Hv as <-; cbn [A.cmp_val erase A.py_eq];
      destruct x, y; reflexivity.
  - destruct op; cbn [conv_cop] in Ho; try discriminate; injection Ho as <-;
      cbn [eval_cmp num_cmp option_map] in Hv; injection Hv as <-;
      cbn [A.cmp_val erase A.py_eq A.as_int]; rewrite ?zN_eqb, ?zN_ltb, ?zN_leb; reflexivity.
  - unfold cmp_kind in Hk. apply andb_true_iff in Hk as [Pa Pb].
    unfold eval_cmp in Hv.
    destruct (ty_eq (type_of (VT l)) (type_of (VT m)) && flat_tuple_ty (type_of (VT l))) eqn:E; [|discriminate].
    apply andb_true_iff in E as [E _]. apply ty_eq_true in E.
    pose proof (value_eqb_erase (VT l) (VT m) Pa Pb E) as Heq.
    destruct op; cbn [conv_cop] in Ho; try discriminate; injection Ho as <-; try discriminate;
      injection Hv as <-; unfold A.cmp_val; rewrite <- Heq; reflexivity.
Qed.

Lemma eval_if_erase b vt vf tv :
  eval_if (VB b) vt vf = Some tv -> erase tv = erase (if b then vt else vf).
Proof.
  cbn [eval_if]. destruct (ty_eq (type_of vt) (type_of vf)); [intros [= <-]; reflexivity|].
  destruct vt; try discriminate; destruct vf; try discriminate. intros [= <-]. now destruct b.
Qed.

Lemma all_some_map_some {X} (l : list X) : A.all_some (map Some l) = Some l.
Proof. induction l as [|x l IH]; cbn [map A.all_some]; [reflexivity|]. now rewrite IH. Qed.

Lemma all_vb_erase : forall vs bs, all_vb vs = Some bs -> map erase vs = map A.VBool bs.
Proof.
  induction vs as [|v vs IH]; intros bs H; cbn [all_vb] in H.
  - now injection H as <-.
  - destruct v; try discriminate. destruct (all_vb vs) as [bs'|]; [|discriminate].
    cbn [option_map] in H. injection H as <-. cbn [map erase]. f_equal. now apply IH.
Qed.

Lemma boolop_bridge ev op : forall l bs, l <> [] -> map ev l = map Some (map A.VBool bs) ->
  A.boolop_with ev op l =
  Some (A.VBool (match op with A.And => forallb id bs | A.Or => existsb id bs end)).
Proof.
  induction l as [|x l IH]; intros bs Hne H; [congruence|].
  destruct bs as [|b bs]; [discriminate|]. cbn [map] in H. injection H as Hx Hr.
  destruct l as [|y l].
  - destruct bs; [|discriminate]. cbn [A.boolop_with]. rewrite Hx. destruct op, b; reflexivity.
  - assert (IH' := IH bs ltac:(discriminate) Hr).
    change (A.boolop_with ev op (x :: y :: l)) with
      (match ev x with
       | Some v => if (match op with A.And => negb (A.truthy v) | A.Or => A.truthy v end) then Some v
                   else A.boolop_with ev op (y :: l)
       | None => None
       end).
    rewrite Hx, IH'. destruct op, b; reflexivity.
Qed.

(* ================================================================== *)
(* subscripts                                                          *)
(* ================================================================== *)
Lemma sub_tup_app : forall q r v, sub_tup v (q ++ r) = true ->
  exists u, sub_val v q = Some u /\ sub_tup v q = true /\ sub_tup u r = true /\
            sub_val v (q ++ r) = sub_val u r.
Proof.
  induction q as [|i q IH]; intros r v H.
  - exists v. cbn [app sub_val sub_tup]. repeat split; assumption.
  - cbn [app sub_tup] in H. destruct v as [| | | |l]; try discriminate.
    destruct (nth_error l i) as [v'|] eqn:E; [|discriminate].
    destruct (IH r v' H) as (u & H1 & H2 & H3 & H4). exists u.
    cbn [app sub_val sub_tup]. rewrite E. repeat split; assumption.
Qed.

(* ================================================================== *)
(* expressions                                                         *)
(* ================================================================== *)
Section Bridge.
  Variable ext : string -> list A.val -> option A.val.
  Variable ns : list string.

  (* the two environments hold the same values under the names that are converted *)
  Definition env_rel (V : venv) (rho : A.env) : Prop :=
    forall x, known ns x = true -> rho x = option_map erase (lookup V (idn ns x)).

  Definition bridge_at (V : venv) (rho : A.env) (e : A.exp) : Prop :=
    forall e' tv, conv_exp ns e = Some e' -> eval_exp V e' = Some tv -> exact_exp V e' = true ->
      A.eval ext rho e = Some (erase tv).

  Lemma list_bridge V rho l : Forall (bridge_at V rho) l -> forall l' vs,
    conv_list ns l = Some l' -> eval_list V l' = Some vs -> forallb (exact_exp V) l' = true ->
    map (A.eval ext rho) l = map Some (map erase vs).
  Proof.
    induction 1 as [|e l He _ IH]; intros l' vs Hc Hv Hx.
    - cbn [conv_list] in Hc. injection Hc as <-. cbn [eval_list] in Hv. injection Hv as <-. reflexivity.
    - cbn [conv_list] in Hc. destruct (conv_exp ns e) as [a|] eqn:Ea; [|discriminate].
      destruct (conv_list ns l) as [b|] eqn:Eb; [|discriminate]. injection Hc as <-.
      cbn [eval_list] in Hv. destruct (eval_exp V a) as [va|] eqn:Eva; [|discriminate].
      destruct (eval_list V b) as [vb|] eqn:Evb; [|discriminate]. injection Hv as <-.
      cbn [forallb] in Hx. apply andb_true_iff in Hx as [Hx1 Hx2].
      cbn [map]. rewrite (He a va Ea Eva Hx1), (IH b vb eq_refl Evb Hx2). reflexivity.
  Qed.

  Lemma conv_sub_bridge V rho : env_rel V rho -> forall e acc x p,
    conv_sub ns e acc = Some (x, p) ->
    exists q, p = q ++ acc /\
      forall v0 u, lookup V x = Some v0 -> sub_tup v0 q = true -> sub_val v0 q = Some u ->
        A.eval ext rho e = Some (erase u).
  Proof.
    intros Hr. induction e; intros acc x0 p H; cbn [conv_sub] in H; try discriminate.
    - destruct (known ns x) eqn:Ek; [|discriminate]. injection H as <- <-. exists []. split; [reflexivity|].
      intros v0 u Hl _ Hs. cbn [sub_val] in Hs. injection Hs as <-. cbn [A.eval].
      rewrite (Hr x Ek), Hl. reflexivity.
    - destruct e2; try discriminate. destruct c; try discriminate.
      destruct (z <? 0)%Z eqn:Ez; [discriminate|]. apply Z.ltb_ge in Ez.
      destruct (IHe1 _ _ _ H) as (q' & Hq & Hb). exists (q' ++ [Z.to_nat z]). split.
      + now rewrite <- app_assoc.
      + intros v0 u Hl Ht Hs. destruct (sub_tup_app q' [Z.to_nat z] v0 Ht) as (u' & H1 & H2 & H3 & H4).
        rewrite H4 in Hs. cbn [sub_tup] in H3. destruct u' as [| | | |l]; try discriminate.
        destruct (nth_error l (Z.to_nat z)) as [w|] eqn:En; [|discriminate].
        cbn [sub_val] in Hs. rewrite En in Hs. injection Hs as <-. cbn [A.eval].
        rewrite (Hb v0 (VT l) Hl H2 H1). cbn [A.val_of_cst erase A.subscript_val A.as_int].
        unfold A.index_list. rewrite map_length.
        assert (Hlt : (Z.to_nat z < List.length l)%nat) by (apply nth_error_Some; congruence).
        destruct ((0 <=? z)%Z && (z <? Z.of_nat (List.length l))%Z) eqn:Eb.
        * now apply map_nth_error.
        * apply andb_false_iff in Eb as [Eb|Eb]; [apply Z.leb_gt in Eb|apply Z.ltb_ge in Eb]; lia.
  Qed.

  Lemma shift_side op b b' V wr y :
    shift_ok op b = true -> conv_exp ns b = Some b' -> eval_exp V b' = Some (VI wr y) ->
    match op with
    | A.LShift | A.RShift =>
        exists k, match b' with EConst c => Some (shift_amount c) | _ => None end = Some (Some k) /\
                  match b' with EConst c => shift_amount c | _ => None end = Some k /\ y = N.of_nat k
    | _ => True
    end.
  Proof.
    intros Hs Hc Hv.
    destruct op; try exact I; cbn [shift_ok] in Hs;
      (destruct b; try discriminate; destruct c; try discriminate;
       cbn [conv_exp conv_cst option_map] in Hc; injection Hc as <-;
       cbn [eval_exp eval_const] in Hv; apply Z.leb_le in Hs;
       destruct (z <? 0)%Z eqn:Ez; [apply Z.ltb_lt in Ez; lia|];
       destruct (const_width (Z.to_N z)); [|discriminate];
       cbn [option_map] in Hv; injection Hv as _ <-; exists (Z.to_nat z);
       cbn [shift_amount]; rewrite Ez; repeat split; now rewrite Z_nat_N).
  Qed.

  Theorem bridge_exp V rho : env_rel V rho -> forall e, bridge_at V rho e.
  Proof.
    intros Hr.
    induction e as [x|c|e IH|op l IH|op a b IHa IHb|op a IHa|op a b IHa IHb|c t f IHc IHt IHf
                   |l IH|l IH|v s IHv IHs|g args IH] using P_A2A.exp_ind2;
      intros e' tv Hc Hv Hx.
    - (* Name *)
      cbn [conv_exp] in Hc. destruct (known ns x) eqn:Ek; [|discriminate]. injection Hc as <-.
      cbn [eval_exp] in Hv. cbn [A.eval]. rewrite (Hr x Ek), Hv. reflexivity.
    - (* Constant *)
      cbn [conv_exp] in Hc. destruct c as [b|z|m k|s|]; try discriminate;
        cbn [conv_cst option_map] in Hc; injection Hc as <-.
      + cbn [eval_exp eval_const] in Hv. injection Hv as <-. reflexivity.
      + cbn [eval_exp eval_const] in Hv. destruct (z <? 0)%Z eqn:Ez; [discriminate|].
        destruct (const_width (Z.to_N z)); [|discriminate]. cbn [option_map] in Hv. injection Hv as <-.
        cbn [A.eval A.val_of_cst erase]. rewrite Z2N.id; [reflexivity|]. apply Z.ltb_ge in Ez. lia.
    - discriminate Hc.
    - (* BoolOp *)
      change (conv_exp ns (A.EBoolOp op l)) with (option_map (EBoolOp (conv_bop op)) (conv_list ns l)) in Hc.
      destruct (conv_list ns l) as [l'|] eqn:El; [|discriminate]. cbn [option_map] in Hc. injection Hc as <-.
      change (eval_exp V (EBoolOp (conv_bop op) l')) with (obind (eval_list V l') (eval_boolop (conv_bop op))) in Hv.
      destruct (eval_list V l') as [vs|] eqn:Evs; [|discriminate]. cbn [obind] in Hv.
      change (exact_exp V (EBoolOp (conv_bop op) l')) with (forallb (exact_exp V) l') in Hx.
      pose proof (list_bridge V rho l IH l' vs El Evs Hx) as Hm.
      unfold eval_boolop in Hv. destruct vs as [|v0 vs0]; [discriminate|].
      destruct (all_vb (v0 :: vs0)) as [bs|] eqn:Eb; [|discriminate]. cbn [option_map] in Hv. injection Hv as <-.
      rewrite (all_vb_erase _ _ Eb) in Hm. cbn [A.eval].
      rewrite (boolop_bridge _ op l bs); [destruct op; reflexivity| |exact Hm].
      destruct l; [|discriminate]. cbn [conv_list] in El. injection El as <-. discriminate Evs.
    - (* BinOp *)
      cbn [conv_exp] in Hc. destruct (shift_ok op b) eqn:Es; [|discriminate].
      destruct (conv_aop op) as [o|] eqn:Eo; [|discriminate].
      destruct (conv_exp ns a) as [a'|] eqn:Ea; [|discriminate].
      destruct (conv_exp ns b) as [b'|] eqn:Eb; [|discriminate]. injection Hc as <-.
      cbn [eval_exp] in Hv. cbn [exact_exp] in Hx.
      destruct (eval_exp V a') as [va|] eqn:Eva; [|discriminate].
      destruct (eval_exp V b') as [vb|] eqn:Evb; [|discriminate]. cbn [obind] in Hv.
      apply andb_true_iff in Hx as [Hx Hk]. apply andb_true_iff in Hx as [Hxa Hxb].
      cbn [A.eval]. rewrite (IHa a' va Ea Eva Hxa), (IHb b' vb Eb Evb Hxb).
      destruct va as [x|wl x| | |]; try discriminate Hk; destruct vb as [y|wr y| | |]; try discriminate Hk.
      + exact (bin_bool_bridge op o _ x y tv Eo Hv).
      + cbn [erase]. apply (bin_int_bridge op o _ _ wl wr x y tv Eo Hv Hk).
        exact (shift_side op b b' V wr y Es Eb Evb).
    - (* UnaryOp *)
      cbn [conv_exp] in Hc. destruct op; try discriminate.
      destruct (conv_exp ns a) as [a'|] eqn:Ea; [|discriminate]. cbn [option_map] in Hc. injection Hc as <-.
      cbn [eval_exp] in Hv. destruct (eval_exp V a') as [va|] eqn:Eva; [|discriminate].
      cbn [obind eval_un] in Hv. destruct va; try discriminate. injection Hv as <-.
      cbn [exact_exp] in Hx. cbn [A.eval]. rewrite (IHa a' _ Ea Eva Hx). reflexivity.
    - (* Compare *)
      cbn [conv_exp] in Hc. destruct (conv_cop op) as [o|] eqn:Eo; [|discriminate].
      destruct (conv_exp ns a) as [a'|] eqn:Ea; [|discriminate].
      destruct (conv_exp ns b) as [b'|] eqn:Eb; [|discriminate]. injection Hc as <-.
      cbn [eval_exp] in Hv. cbn [exact_exp] in Hx.
      destruct (eval_exp V a') as [va|] eqn:Eva; [|discriminate].
      destruct (eval_exp V b') as [vb|] eqn:Evb; [|discriminate]. cbn [obind] in Hv.
      apply andb_true_iff in Hx as [Hx Hk]. apply andb_true_iff in Hx as [Hxa Hxb].
      cbn [A.eval]. rewrite (IHa a' va Ea Eva Hxa), (IHb b' vb Eb Evb Hxb).
      exact (cmp_bridge op o va vb tv Eo Hv Hk).
    - (* IfExp *)
      cbn [conv_exp] in Hc. destruct (conv_exp ns c) as [c'|] eqn:Ec; [|discriminate].
      destruct (conv_exp ns t) as [t'|] eqn:Et; [|discriminate].
      destruct (conv_exp ns f) as [f'|] eqn:Ef; [|discriminate]. injection Hc as <-.
      cbn [eval_exp] in Hv. cbn [exact_exp] in Hx.
      destruct (eval_exp V c') as [vc|] eqn:Evc; [|discriminate].
      destruct (eval_exp V t') as [vt|] eqn:Evt; [|discriminate].
      destruct (eval_exp V f') as [vf|] eqn:Evf; [|discriminate]. cbn [obind] in Hv.
      apply andb_true_iff in Hx as [Hxc Hb].
      destruct vc as [bb| | | |]; try discriminate Hb.
      cbn [A.eval]. rewrite (IHc c' _ Ec Evc Hxc). cbn [erase A.truthy].
      rewrite (eval_if_erase _ _ _ _ Hv).
      destruct bb; [exact (IHt t' vt Et Evt Hb)|exact (IHf f' vf Ef Evf Hb)].
    - (* Tuple *)
      change (conv_exp ns (A.ETuple l)) with (option_map ETuple (conv_list ns l)) in Hc.
      destruct (conv_list ns l) as [l'|] eqn:El; [|discriminate]. cbn [option_map] in Hc. injection Hc as <-.
      change (eval_exp V (ETuple l')) with (option_map VT (eval_list V l')) in Hv.
      destruct (eval_list V l') as [vs|] eqn:Evs; [|discriminate]. cbn [option_map] in Hv. injection Hv as <-.
      change (exact_exp V (ETuple l')) with (forallb (exact_exp V) l') in Hx.
      pose proof (list_bridge V rho l IH l' vs El Evs Hx) as Hm.
      cbn [A.eval]. rewrite Hm, all_some_map_some. reflexivity.
    - discriminate Hc.
    - (* Subscript *)
      cbn [conv_exp] in Hc.
      destruct (conv_sub ns (A.ESubscript v s) []) as [[x p]|] eqn:Es; [|discriminate]. injection Hc as <-.
      destruct (conv_sub_bridge V rho Hr _ _ _ _ Es) as (q & Hq & Hb). rewrite app_nil_r in Hq. subst q.
      cbn [exact_exp] in Hx. cbn [eval_exp] in Hv. destruct p; [discriminate|].
      destruct (lookup V x) as [v0|] eqn:El; [|discriminate]. cbn [obind] in Hv.
      exact (Hb v0 tv eq_refl Hx Hv).
    - (* Call: int(a) *)
      cbn [conv_exp] in Hc. destruct (String.eqb g "int") eqn:Eg; [|discriminate].
      apply String.eqb_eq in Eg. subst g. destruct args as [|a [|b r]]; try discriminate.
      destruct (conv_exp ns a) as [a'|] eqn:Ea; [|discriminate]. cbn [option_map] in Hc. injection Hc as <-.
      cbn [eval_exp] in Hv. cbn [exact_exp] in Hx.
      destruct (eval_exp V a') as [va|] eqn:Eva; [|discriminate]. cbn [obind] in Hv.
      apply andb_true_iff in Hx as [Hxa Hk]. destruct va as [|w n| | |]; try discriminate Hk.
      cbn [eval_int] in Hv. injection Hv as <-.
      pose proof (Forall_inv IH) as IHa. cbn [A.eval map A.all_some].
      rewrite (IHa a' _ Ea Eva Hxa). reflexivity.
  Qed.

  (* ================================================================ *)
  (* statements, bodies, functions                                    *)
  (* ================================================================ *)
  Lemma ret_exact_erase rt v v' :
    coerce_ret rt v = Some v' -> ret_exact rt v = true -> erase v' = erase v.
  Proof.
    intros H He.
    assert (Hgen : (if ty_eq (type_of v) rt then Some v else None) = Some v' -> erase v' = erase v)
      by (destruct (ty_eq (type_of v) rt); [intros [= <-]; reflexivity|discriminate]).
    destruct v as [b|w n|i f n|c|l]; try exact (Hgen H).
    destruct rt as [|r|i f| |lt]; try exact (Hgen H).
    cbn [coerce_ret] in H. cbn [ret_exact] in He. apply N.ltb_lt in He.
    destruct (w <? r)%nat; [injection H as <-; reflexivity|].
    destruct (r <? w)%nat; injection H as <-; [|reflexivity].
    cbn [erase]. now rewrite N.mod_small.
  Qed.

  Lemma coerce_plain rt v v' : coerce_ret rt v = Some v' -> plain v = true -> plain v' = true.
  Proof.
    intros H Hp.
    assert (Hgen : (if ty_eq (type_of v) rt then Some v else None) = Some v' -> plain v' = true)
      by (destruct (ty_eq (type_of v) rt); [intros [= <-]; exact Hp|discriminate]).
    destruct v as [b|w n|i f n|c|l]; try exact (Hgen H).
    destruct rt as [|r|i f| |lt]; try exact (Hgen H).
    cbn [coerce_ret] in H.
    destruct (w <? r)%nat; [injection H as <-; reflexivity|].
    destruct (r <? w)%nat; injection H as <-; reflexivity.
  Qed.

  Lemma env_rel_bind V rho x v :
    env_rel V rho -> known ns x = true -> env_rel (bind V (idn ns x) v) (A.upd rho x (erase v)).
  Proof.
    intros Hr Hx y Hy. unfold A.upd. rewrite lookup_bind, (idn_eqb ns y x Hy), (String.eqb_sym x y).
    destruct (String.eqb y x); [reflexivity|exact (Hr y Hy)].
  Qed.

  Lemma conv_not_call e e' : conv_exp ns e = Some e' -> A.is_call "print" e = None.
  Proof.
    destruct e; intros H; try reflexivity. cbn [conv_exp] in H.
    destruct (String.eqb f "int") eqn:Eg; [|discriminate]. apply String.eqb_eq in Eg. now subst f.
  Qed.

  Theorem bridge_body rt : forall b V rho body V',
    env_rel V rho -> lookup V ret_id = None ->
    conv_body ns b = Some body -> ret_last body = true ->
    eval_body V rt body = Some V' -> exact_body V rt body = true ->
    exists tv rho', lookup V' ret_id = Some tv /\ plain tv = true /\
                    A.exec_list ext b rho = Some (rho', Some (erase tv)).
  Proof.
    induction b as [|s r IH]; intros V rho body V' Hr H0 Hc Hl Hv Hx.
    - cbn [conv_body] in Hc. injection Hc as <-. discriminate Hl.
    - cbn [conv_body] in Hc. destruct (conv_stmt ns s) as [s'|] eqn:Es; [|discriminate].
      destruct (conv_body ns r) as [body_r|] eqn:Er; [|discriminate]. injection Hc as <-.
      cbn [eval_body] in Hv. destruct (eval_stmt V rt s') as [V1|] eqn:Ev1; [|discriminate]. cbn [obind] in Hv.
      cbn [exact_body] in Hx. rewrite Ev1 in Hx. apply andb_true_iff in Hx as [Hxs Hxr].
      rewrite P_A2A.exec_list_cons.
      destruct s as [t e|x op e|c bt bo|x it bt bo|e|oe]; cbn [conv_stmt] in Es; try discriminate.
      + (* Assign *)
        destruct t as [x|tl]; [|discriminate]. destruct (known ns x) eqn:Ek; [|discriminate].
        destruct (conv_exp ns e) as [e'|] eqn:Ee; [|discriminate]. cbn [option_map] in Es. injection Es as <-.
        cbn [eval_stmt] in Ev1. destruct (eval_exp V e') as [v|] eqn:Eve; [|discriminate].
        cbn [option_map] in Ev1. injection Ev1 as <-.
        cbn [exact_stmt] in Hxs. cbn [A.exec]. rewrite (bridge_exp V rho Hr e e' v Ee Eve Hxs).
        cbn [ret_last] in Hl.
        apply (IH (bind V (idn ns x) v) (A.upd rho x (erase v)) body_r V'); auto.
        * now apply env_rel_bind.
        * rewrite lookup_bind. exact H0.
      + (* Return *)
        destruct (conv_exp ns e) as [e'|] eqn:Ee; [|discriminate]. cbn [option_map] in Es. injection Es as <-.
        cbn [ret_last] in Hl. destruct body_r; [|discriminate].
        cbn [eval_body] in Hv. injection Hv as <-.
        cbn [eval_stmt] in Ev1. destruct (eval_exp V e') as [v|] eqn:Eve; [|discriminate]. cbn [obind] in Ev1.
        destruct (coerce_ret rt v) as [v'|] eqn:Ecr; [|discriminate]. cbn [obind] in Ev1.
        rewrite H0 in Ev1. injection Ev1 as <-.
        cbn [exact_stmt] in Hxs. apply andb_true_iff in Hxs as [Hxe Hxs].
        rewrite Eve in Hxs. apply andb_true_iff in Hxs as [Hre Hpl].
        exists v', rho. split; [rewrite lookup_bind; reflexivity|]. split; [exact (coerce_plain _ _ _ Ecr Hpl)|].
        cbn [A.exec]. rewrite (bridge_exp V rho Hr e e' v Ee Eve Hxe).
        now rewrite (ret_exact_erase _ _ _ Ecr Hre).
      + (* Expr *)
        destruct oe as [e|].
        * destruct (conv_exp ns e) as [e'|] eqn:Ee; [|discriminate]. cbn [option_map] in Es. injection Es as <-.
          cbn [eval_stmt] in Ev1. destruct (eval_exp V e') as [v|] eqn:Eve; [|discriminate].
          cbn [option_map] in Ev1. injection Ev1 as <-.
          cbn [exact_stmt] in Hxs. cbn [A.exec]. rewrite (conv_not_call e e' Ee).
          rewrite (bridge_exp V rho Hr e e' v Ee Eve Hxs). cbn [ret_last] in Hl.
          now apply (IH V rho body_r V').
        * injection Es as <-. cbn [eval_stmt eval_exp eval_const option_map] in Ev1. injection Ev1 as <-.
          cbn [A.exec]. cbn [ret_last] in Hl. now apply (IH V rho body_r V').
  Qed.

  Lemma args_rel : forall fargs args vs, conv_args ns fargs = Some args ->
    env_rel (combine (map fst args) vs) (arg_rho (map fst fargs) vs) /\
    lookup (combine (map fst args) vs) ret_id = None.
  Proof.
    induction fargs as [|[x [t|]] r IH]; intros args vs H; cbn [conv_args] in H; try discriminate.
    - injection H as <-. split; [intros y _; reflexivity|reflexivity].
    - destruct (known ns x) eqn:Ek; [|discriminate]. destruct (conv_ty t) as [t'|]; [|discriminate].
      destruct (conv_args ns r) as [r'|] eqn:Er; [|discriminate]. injection H as <-.
      destruct vs as [|v vs]; [split; [intros y _; reflexivity|reflexivity]|].
      destruct (IH r' vs eq_refl) as [H1 H2]. split.
      + intros y Hy. unfold arg_rho. cbn [map fst combine A.env_of lookup]. unfold A.upd.
        rewrite (idn_eqb ns x y Ek). destruct (String.eqb x y); [reflexivity|exact (H1 y Hy)].
      + cbn [map fst combine lookup]. exact H2.
  Qed.

  Theorem bridge_fun fargs args rt b body vs tv :
    conv_args ns fargs = Some args -> conv_body ns b = Some body -> ret_last body = true ->
    eval_fun args rt body vs = Some tv -> exact_fun args rt body vs = true ->
    A.run ext b (arg_rho (map fst fargs) vs) = Some (erase tv) /\ plain tv = true.
  Proof.
    intros Ha Hb Hl Hv Hx. destruct (args_rel fargs args vs Ha) as [Hr H0].
    unfold eval_fun in Hv.
    destruct (negb (Nat.eqb (List.length args) (List.length vs))); [discriminate|].
    destruct (negb (forallb _ _)); [discriminate|].
    destruct (eval_body (combine (map fst args) vs) rt body) as [V'|] eqn:Eb; [|discriminate].
    cbn [obind] in Hv.
    destruct (bridge_body rt b _ _ body V' Hr H0 Hb Hl Eb Hx) as (tv' & rho' & H1 & H2 & H3).
    rewrite Hv in H1. injection H1 as <-. split; [|exact H2].
    unfold A.run. now rewrite H3.
  Qed.
End Bridge.

(* ================================================================== *)
(* the composition                                                     *)
(* ================================================================== *)
(* converted bodies never assign the reserved name *)
Lemma conv_body_wf ns : forall b body, conv_body ns b = Some body -> wf_body body = true.
Proof.
  induction b as [|s r IH]; intros body H; cbn [conv_body] in H.
  - now injection H as <-.
  - destruct (conv_stmt ns s) as [s'|] eqn:Es; [|discriminate].
    destruct (conv_body ns r) as [c|]; [|discriminate]. injection H as <-.
    unfold wf_body. cbn [forallb]. fold (wf_body c). rewrite (IH c eq_refl), andb_true_r.
    destruct s as [t e|x op e|c0 bt bo|x it bt bo|e|oe]; cbn [conv_stmt] in Es; try discriminate.
    + destruct t as [x|tl]; [|discriminate]. destruct (known ns x); [|discriminate].
      destruct (conv_exp ns e); [|discriminate]. cbn [option_map] in Es. now injection Es as <-.
    + destruct (conv_exp ns e); [|discriminate]. cbn [option_map] in Es. now injection Es as <-.
    + destruct oe as [e|]; [destruct (conv_exp ns e); [|discriminate]; cbn [option_map] in Es|];
        now injection Es as <-.
Qed.

(* SOURCE --a2a--> normal form --conv--> typed term --trans_fun--> Boolean definitions.
   If the typed evaluator gives the converted normal form the value tv, exactly, then
   (i) the SOURCE function returns [erase tv] under the untyped Python semantics, and
   (ii) the definitions the translator produces decode to tv. *)
Theorem e2e ext ns f b' args rt body vs tv num rhoB lf :
  A.a2a_guard f = true -> A.a2a f = A.Ok b' ->
  conv_sig ns f = Some (args, rt) -> conv_body ns b' = Some body -> ret_last body = true ->
  A.conforms_b f (arg_rho (map fst (A.f_args f)) vs) = true ->
  eval_fun args rt body vs = Some tv -> exact_fun args rt body vs = true ->
  (forall a b, num a = num b -> a = b) ->
  trans_fun num args rt body = Some lf ->
  wf_args args = true -> ty_good rt = true -> forallb stmt_class body = true ->
  args_encoded num rhoB args vs ->
  A.run ext (A.f_body f) (arg_rho (map fst (A.f_args f)) vs) = Some (erase tv) /\
  plain tv = true /\
  lf_ret lf = (rt, arg_names [ret_id] rt) /\
  decode rt (map (fun s => run_defs rhoB (numbered num (lf_defs lf)) (num s)) (arg_names [ret_id] rt))
    = Some tv.
Proof.
  intros Hg Ha Hs Hb Hl Hcf Hv Hx Hinj Ht Hwa Hrt Hcl Henc.
  unfold conv_sig in Hs. destruct (conv_args ns (A.f_args f)) as [args'|] eqn:Eargs; [|discriminate].
  destruct (A.f_ret f) as [t|]; [|discriminate]. destruct (conv_ty t) as [rt'|]; [|discriminate].
  cbn [option_map] in Hs. injection Hs as -> ->.
  destruct (bridge_fun ext ns (A.f_args f) args rt b' body vs tv Eargs Hb Hl Hv Hx) as [Hrun Hpl].
  split; [|split; [exact Hpl|]].
  - exact (P_A2A.a2a_backward ext f b' Hg Ha _ (P_A2A.conforms_check f _ Hcf) _ Hrun).
  - exact (trans_fun_sound_class num rhoB args rt body vs lf tv Hinj Ht Hv Hwa Hrt
             (conv_body_wf ns b' body Hb) Hcl Henc).
Qed.
