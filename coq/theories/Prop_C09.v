(* Prop_C09.v — property C09 "Type codecs are exact and mutually inverse",
   stated against the codec model M_Codec.v for EVERY width (not only the
   shipped ones).  Statements only; proofs are in P_Codec.v. *)
From Coq Require Import List Bool NArith Arith.
From QV Require Import Bits M_Codec P_Codec Generated.
Import ListNotations.
Local Open Scope N_scope.

(* Qint: decode then re-encode returns the pattern *)
Theorem C09_qint_pattern_roundtrip : forall w l,
  length l = w -> qint_to_bool w (qint_from_bool w l) = l.
Proof. exact qint_to_from. Qed.
Print Assumptions C09_qint_pattern_roundtrip.

Theorem C09_qint_value_roundtrip : forall w v,
  v < 2 ^ N.of_nat w -> qint_from_bool w (qint_to_bool w v) = v.
Proof. exact qint_from_to. Qed.
Print Assumptions C09_qint_value_roundtrip.

(* the encoding is the little-endian binary expansion *)
Theorem C09_qint_encoding_is_binary : forall w v,
  v < 2 ^ N.of_nat w -> qint_to_bool w v = nbits w v.
Proof. exact qint_to_bool_spec. Qed.
Print Assumptions C09_qint_encoding_is_binary.

(* compile-time constant encoding = runtime encoding *)
Theorem C09_qint_const_is_runtime : forall w v,
  (0 < w)%nat -> qint_const w v = qint_to_bool w (qint_new w v).
Proof. exact qint_const_runtime. Qed.
Print Assumptions C09_qint_const_is_runtime.

(* amplitude vector: length 2^w, one-hot at the index whose bit k is bit k of the encoding *)
Theorem C09_qint_amplitudes : forall w v,
  v < 2 ^ N.of_nat w -> qint_amp w v = (2 ^ N.of_nat w, bits_val (qint_to_bool w v)).
Proof. exact qint_amp_onehot. Qed.
Print Assumptions C09_qint_amplitudes.

(* Qchar *)
Theorem C09_qchar_pattern_roundtrip : forall l,
  length l = 8%nat -> qchar_to_bool (qchar_from_bool l) = l.
Proof. exact qchar_to_from. Qed.
Print Assumptions C09_qchar_pattern_roundtrip.

Theorem C09_qchar_value_roundtrip : forall c, c < 2 ^ 8 -> qchar_from_bool (qchar_to_bool c) = c.
Proof. exact qchar_from_to. Qed.
Print Assumptions C09_qchar_value_roundtrip.

Theorem C09_qchar_const_is_runtime : forall c, c < 2 ^ 8 -> qchar_const c = qchar_to_bool c.
Proof. exact qchar_const_runtime. Qed.
Print Assumptions C09_qchar_const_is_runtime.

Theorem C09_qchar_amplitudes : forall c,
  c < 2 ^ 8 -> qchar_amp c = (2 ^ 8, bits_val (qchar_to_bool c)).
Proof. exact qchar_amp_onehot. Qed.
Print Assumptions C09_qchar_amplitudes.

(* Qfixed(i, f), every i and f *)
Theorem C09_qfixed_pattern_roundtrip : forall i f l,
  length l = (i + f)%nat -> qfixed_to_bool i f (qfixed_from_bool i f l) = l.
Proof. exact qfixed_to_from. Qed.
Print Assumptions C09_qfixed_pattern_roundtrip.

Theorem C09_qfixed_value_roundtrip : forall i f n,
  n < 2 ^ N.of_nat (i + f) -> qfixed_from_bool i f (qfixed_to_bool i f (mkdy n f)) = mkdy n f.
Proof. exact qfixed_from_to. Qed.
Print Assumptions C09_qfixed_value_roundtrip.

Theorem C09_qfixed_const_is_runtime : forall i f x, qfixed_const i f x = qfixed_to_bool i f x.
Proof. reflexivity. Qed.
Print Assumptions C09_qfixed_const_is_runtime.

Theorem C09_qfixed_amplitudes : forall i f x,
  qfixed_amp i f x = (2 ^ N.of_nat (i + f), bits_val (qfixed_to_bool i f x)).
Proof. exact qfixed_amp_onehot. Qed.
Print Assumptions C09_qfixed_amplitudes.

(* nested Tuple/Qlist/Qmatrix types: decoding the measured string (the reversed
   concatenation of the element encodings) returns the value *)
Theorem C09_nested_decode_inverts_encode : forall t v bits,
  wf_val t v = true -> val_to_bin t v = Some bits ->
  length bits = ty_size t /\ decode_output t (rev bits) = Some v.
Proof.
  intros t v bits Hwf Hv. split.
  - exact (proj1 (interpret_val_to_bin t v bits Hwf Hv)).
  - exact (decode_output_encode t v bits Hwf Hv).
Qed.
Print Assumptions C09_nested_decode_inverts_encode.

(* constant type inference for ints picks the first listed width that fits,
   and encodes the value exactly *)
Theorem C09_const_to_qtype_int : forall v w bits,
  const_to_qtype_int v = Some (w, bits) ->
  In w const_widths /\ v < 2 ^ N.of_nat w /\ bits = nbits w v /\
  (forall pre post, const_widths = pre ++ w :: post -> ~ In w pre ->
     Forall (fun w' => 2 ^ N.of_nat w' <= v) pre).
Proof.
  intros v w bits H. apply const_int_search_spec; [|exact H].
  repeat constructor.
Qed.
Print Assumptions C09_const_to_qtype_int.

(* side conditions on the tables read from /repo on this run *)
Theorem C09_shipped_widths_positive :
  forallb (fun w => 0 <? w)%nat shipped_qint = true /\
  forallb (fun p => (0 <? fst p + snd p)%nat) shipped_qfixed = true /\
  src_const_widths = const_widths.
Proof. vm_compute. repeat split; reflexivity. Qed.
Print Assumptions C09_shipped_widths_positive.

(* non-vacuity: the hypotheses are met by concrete non-trivial values *)
Example C09_example_nested :
  let t := TTuple [TQint 4; TTuple [TBool; TQfixed 2 2]; TQchar] in
  let v := VTuple [VInt 11; VTuple [VBool true; VFix (mkdy 13 2)]; VChar 65] in
  wf_val t v = true /\
  exists bits, val_to_bin t v = Some bits /\ decode_output t (rev bits) = Some v.
Proof. split; [reflexivity|]. eexists. split; reflexivity. Qed.
