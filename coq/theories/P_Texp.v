(* P_Texp.v — proofs about the model of the expression / statement translator
   (M_Texp.v): every translated expression denotes, under every assignment of the
   symbols, the value the typed reference evaluator computes; statements and
   straight-line function bodies; refutations where the faithful model makes a
   statement false.  Built ON the operator-level theorems of P_Types.v. *)
From Coq Require Import List Bool NArith ZArith Arith Lia.
From QV Require Import Bits Bexp BexpTT M_Codec P_Codec Generated M_Types P_Types M_Texp.
Import ListNotations.
Local Open Scope N_scope.

(* ================================================================== *)
(* small tools                                                         *)
(* ================================================================== *)
Lemma pw_p2 w : pw w = p2 w.
Proof. reflexivity. Qed.

Lemma obind_some {A B} (x : option A) (f : A -> option B) r :
  obind x f = Some r -> exists a, x = Some a /\ f a = Some r.
Proof. destruct x as [a|]; cbn [obind]; [|discriminate]. intros H. now exists a. Qed.

Lemma option_map_some {A B} (f : A -> B) (x : option A) r :
  option_map f x = Some r -> exists a, x = Some a /\ r = f a.
Proof. destruct x as [a|]; cbn [option_map]; [|discriminate]. intros [= <-]. now exists a. Qed.

(* ---- type equality ---- *)
Definition tys_eq := fix go (l m : list ty) : bool :=
  match l, m with
  | [], [] => true
  | x :: l', y :: m' => ty_eq x y && go l' m'
  | _, _ => false
  end.

Lemma ty_eq_tuple l m : ty_eq (TTuple l) (TTuple m) = tys_eq l m.
Proof. reflexivity. Qed.

Lemma ty_eq_true : forall a b, ty_eq a b = true -> a = b.
Proof.
  induction a as [|w|i f| |l IH] using ty_ind2; intros [|w'|i' f'| |m]; cbn [ty_eq]; try discriminate; intros H.
  - reflexivity.
  - apply Nat.eqb_eq in H. now subst.
  - apply andb_true_iff in H as [H1 H2]. apply Nat.eqb_eq in H1, H2. now subst.
  - reflexivity.
  - fold (tys_eq l m) in H. f_equal. revert m H.
    induction IH as [|x l Hx _ IHl]; intros [|y m] H; cbn [tys_eq] in H; try discriminate; [reflexivity|].
    apply andb_true_iff in H as [H1 H2]. f_equal; [now apply Hx|now apply IHl].
Qed.

Lemma ty_eq_refl : forall a, ty_eq a a = true.
Proof.
  induction a as [|w|i f| |l IH] using ty_ind2; cbn [ty_eq]; try reflexivity.
  - apply Nat.eqb_refl.
  - now rewrite !Nat.eqb_refl.
  - fold (tys_eq l l). induction IH as [|x l Hx _ IHl]; cbn [tys_eq]; [reflexivity|]. now rewrite Hx, IHl.
Qed.

Lemma ty_eq_iff a b : ty_eq a b = true <-> a = b.
Proof. split; [apply ty_eq_true|intros ->; apply ty_eq_refl]. Qed.

Lemma ty_eq_false a b : ty_eq a b = false -> a <> b.
Proof. intros H E. subst. rewrite ty_eq_refl in H. discriminate. Qed.

(* ---- vtree ---- *)
Lemma flat_of_list l : flat (of_list l) = l.
Proof.
  unfold of_list. cbn [flat]. induction l as [|e l IH]; cbn [map flat_map flat app]; [reflexivity|].
  now rewrite IH.
Qed.

Lemma all_leaves_map l es : all_leaves l = Some es -> l = map L es.
Proof.
  revert es; induction l as [|x l IH]; intros es H; cbn [all_leaves] in H.
  - now injection H as <-.
  - destruct x as [e|?]; cbn [leaf] in H; [|discriminate].
    destruct (all_leaves l) as [b|]; [|discriminate]. injection H as <-.
    cbn [map]. now rewrite (IH b eq_refl).
Qed.

Lemma all_leaves_of l : all_leaves (map L l) = Some l.
Proof. induction l as [|e l IH]; cbn [map all_leaves leaf]; [reflexivity|now rewrite IH]. Qed.

Lemma leaves_some v es : leaves v = Some es -> v = of_list es.
Proof. destruct v as [e|l]; cbn [leaves]; [discriminate|]. intros H. unfold of_list. f_equal. now apply all_leaves_map. Qed.

Lemma leaves_flat v es : leaves v = Some es -> flat v = es.
Proof. intros H. rewrite (leaves_some _ _ H). apply flat_of_list. Qed.

Lemma leaf_some v e : leaf v = Some e -> v = L e.
Proof. destruct v; cbn [leaf]; [now intros [= ->]|discriminate]. Qed.

Lemma to_texp_some r te : to_texp r = Some te -> fst te = fst r /\ snd r = of_list (snd te).
Proof.
  unfold to_texp. intros H. apply option_map_some in H as (l & Hl & ->). cbn [fst snd].
  split; [reflexivity|now apply leaves_some].
Qed.

Lemma to_texp_of_texp te : to_texp (of_texp te) = Some te.
Proof. unfold to_texp, of_texp, of_list. cbn [fst snd leaves]. rewrite all_leaves_of. now destruct te. Qed.

(* ================================================================== *)
(* decode                                                              *)
(* ================================================================== *)
Definition decode_list := fix go (l : list ty) (bs : list bool) : option (list value) :=
  match l with
  | [] => match bs with [] => Some [] | _ => None end
  | x :: r =>
      match decode x (firstn (ty_size x) bs), go r (skipn (ty_size x) bs) with
      | Some a, Some b => Some (a :: b)
      | _, _ => None
      end
  end.

Lemma decode_tuple l bs : decode (TTuple l) bs = option_map VT (decode_list l bs).
Proof. reflexivity. Qed.

Lemma decode_bool bs v : decode TBool bs = Some v -> exists b, bs = [b] /\ v = VB b.
Proof. destruct bs as [|b [|]]; cbn [decode]; try discriminate. intros [= <-]. now exists b. Qed.

Lemma decode_qint w bs v : decode (TQint w) bs = Some v -> length bs = w /\ v = VI w (bits_val bs).
Proof.
  cbn [decode]. destruct (Nat.eqb_spec (length bs) w) as [E|E]; [|discriminate]. intros [= <-]. now split.
Qed.

Lemma decode_qfixed i f bs v : decode (TQfixed i f) bs = Some v ->
  length bs = (i + f)%nat /\ v = VF i f (fix_val i bs).
Proof.
  cbn [decode]. destruct (Nat.eqb_spec (length bs) (i + f)) as [E|E]; [|discriminate]. intros [= <-]. now split.
Qed.

Lemma decode_qchar bs v : decode TQchar bs = Some v -> length bs = 8%nat /\ v = VC (bits_val bs).
Proof.
  cbn [decode]. destruct (Nat.eqb_spec (length bs) 8) as [E|E]; [|discriminate]. intros [= <-]. now split.
Qed.

(* a decoded value has the type it was decoded at, and the bit list has the type's size *)
Lemma decode_type : forall t bs v, decode t bs = Some v -> type_of v = t /\ length bs = ty_size t.
Proof.
  induction t as [|w|i f| |l IH] using ty_ind2; intros bs v H.
  - apply decode_bool in H as (b & -> & ->). now split.
  - apply decode_qint in H as (Hl & ->). now split.
  - apply decode_qfixed in H as (Hl & ->). now split.
  - apply decode_qchar in H as (Hl & ->). now split.
  - rewrite decode_tuple in H. apply option_map_some in H as (vs & H & ->). cbn [type_of ty_size].
    assert (G : map type_of vs = l /\ length bs = list_sum (map ty_size l)).
    { revert bs vs H. induction IH as [|x l Hx _ IHl]; intros bs vs H; cbn [decode_list] in H.
      - destruct bs; [|discriminate]. injection H as <-. now split.
      - destruct (decode x (firstn (ty_size x) bs)) as [a|] eqn:Ea; [|discriminate].
        destruct (decode_list l (skipn (ty_size x) bs)) as [b|] eqn:Eb; [|discriminate].
        injection H as <-. destruct (Hx _ _ Ea) as [T1 L1]. destruct (IHl _ _ Eb) as [T2 L2].
        cbn [map]. change (list_sum (ty_size x :: map ty_size l)) with (ty_size x + list_sum (map ty_size l))%nat.
        split; [now rewrite T1, T2|].
        rewrite firstn_length in L1. rewrite skipn_length in L2. lia. }
    destruct G as [G1 G2]. now rewrite G1.
Qed.

(* ---- the meaning of a translated expression ---- *)
Definition sem (rho : nat -> bool) (r : tres) (v : value) : Prop := den rho r = Some v.

Lemma sem_type rho r v : sem rho r v -> type_of v = fst r.
Proof. intros H. now apply decode_type in H. Qed.

Lemma sem_of_texp rho te v :
  sem rho (of_texp te) v <-> decode (fst te) (map (beval rho) (snd te)) = Some v.
Proof. unfold sem, den, of_texp. cbn [fst snd]. now rewrite flat_of_list. Qed.

Lemma sem_bool rho r v : fst r = TBool -> sem rho r v ->
  exists b, v = VB b /\ map (beval rho) (flat (snd r)) = [b].
Proof. unfold sem, den. intros -> H. apply decode_bool in H as (b & H & ->). now exists b. Qed.

Lemma sem_leaf_bool rho t e v : sem rho (t, L e) v -> t = TBool -> v = VB (beval rho e).
Proof. intros H ->. apply (sem_bool rho (TBool, L e) v eq_refl) in H as (b & -> & H). cbn in H. now injection H as <-. Qed.

Lemma sem_mk_bool rho e : sem rho (TBool, L e) (VB (beval rho e)).
Proof. reflexivity. Qed.

(* an integer-typed expression with a flat list *)
Lemma sem_qint rho r te w v : to_texp r = Some te -> fst r = TQint w -> sem rho r v ->
  good te w /\ v = VI w (bv rho (snd te)).
Proof.
  intros Ht Hty H. destruct (to_texp_some _ _ Ht) as [T S]. unfold sem, den in H. rewrite Hty, S, flat_of_list in H.
  apply decode_qint in H as [Hl ->]. rewrite map_length in Hl. split; [|reflexivity].
  split; [congruence|exact Hl].
Qed.

Lemma sem_qint_out rho te w n : fst te = TQint w -> length (snd te) = w -> bv rho (snd te) = n ->
  sem rho (of_texp te) (VI w n).
Proof.
  intros T Hl Hv. apply sem_of_texp. rewrite T. cbn [decode]. rewrite map_length, Hl, Nat.eqb_refl.
  unfold bv in Hv. now rewrite Hv.
Qed.

Lemma fix_val_map rho i l : fix_val i (map (beval rho) l) = fxv rho i l.
Proof. unfold fix_val, fxv, bv. now rewrite qrepr_map. Qed.

Lemma sem_qfixed rho r te i f v : to_texp r = Some te -> fst r = TQfixed i f -> sem rho r v ->
  fst te = TQfixed i f /\ length (snd te) = (i + f)%nat /\ v = VF i f (fxv rho i (snd te)).
Proof.
  intros Ht Hty H. destruct (to_texp_some _ _ Ht) as [T S]. unfold sem, den in H. rewrite Hty, S, flat_of_list in H.
  apply decode_qfixed in H as [Hl ->]. rewrite map_length in Hl. rewrite fix_val_map.
  repeat split; congruence.
Qed.

Lemma sem_qfixed_out rho i f l n : length l = (i + f)%nat -> fxv rho i l = n ->
  sem rho (of_texp (TQfixed i f, l)) (VF i f n).
Proof.
  intros Hl Hv. apply sem_of_texp. cbn [fst snd decode]. rewrite map_length, Hl, Nat.eqb_refl.
  now rewrite fix_val_map, Hv.
Qed.

Lemma has_val_qint rho x t w f r : has_val x t w f -> x = Some r -> t = TQint w ->
  sem rho (of_texp r) (VI w (f rho)).
Proof.
  intros (r' & E & T & Hl & Hv) Hx ->. rewrite E in Hx. injection Hx as <-.
  now apply sem_qint_out.
Qed.

Lemma cmp_val_sem rho x f r : cmp_val x f -> x = Some r ->
  exists e, r = (TBool, [e]) /\ beval rho e = f rho.
Proof. intros (e & E & Hv) Hx. rewrite E in Hx. injection Hx as <-. exists e. now split. Qed.

(* ================================================================== *)
(* BoolOp, UnaryOp                                                     *)
(* ================================================================== *)
Lemma unfold_bop_spec rho op es e : unfold_bop op es = Some e ->
  beval rho e = match op with
                | BoAnd => forallb id (map (beval rho) es)
                | BoOr => existsb id (map (beval rho) es)
                end.
Proof.
  revert e; induction es as [|x r IH]; intros e H; [discriminate|].
  destruct r as [|y r'].
  - cbn in H. injection H as <-. destruct op; cbn; [now rewrite andb_true_r|now rewrite orb_false_r].
  - cbn [unfold_bop] in H. apply option_map_some in H as (u & Hu & ->). specialize (IH _ Hu).
    destruct op; cbn [mk_bop]; [rewrite beval_and2|rewrite beval_or2]; rewrite IH; reflexivity.
Qed.

Lemma boolop_vals rho rs vs : Forall2 (sem rho) rs vs -> forall es bs,
  all_bool rs = true -> all_leaves (map snd rs) = Some es -> all_vb vs = Some bs ->
  bs = map (beval rho) es.
Proof.
  induction 1 as [|r v rs vs Hs _ IH]; intros es bs Hb Hl Hv.
  - cbn in Hl, Hv. injection Hl as <-. now injection Hv as <-.
  - unfold all_bool in Hb. cbn [forallb] in Hb. apply andb_true_iff in Hb as [Hb1 Hb2].
    cbn [map all_leaves] in Hl. destruct (leaf (snd r)) as [e|] eqn:El; [|discriminate].
    destruct (all_leaves (map snd rs)) as [es'|] eqn:El'; [|discriminate]. injection Hl as <-.
    destruct r as [t tr]. cbn [fst snd] in *. destruct t; try discriminate.
    apply leaf_some in El. subst tr. pose proof (sem_leaf_bool _ _ _ _ Hs eq_refl) as ->.
    cbn [all_vb] in Hv. apply option_map_some in Hv as (bs' & Hv & ->).
    cbn [map]. f_equal. now apply IH.
Qed.

Lemma trans_boolop_sound rho op rs vs r v :
  Forall2 (sem rho) rs vs -> trans_boolop op rs = Some r -> eval_boolop op vs = Some v -> sem rho r v.
Proof.
  intros HF Ht He. unfold trans_boolop in Ht. destruct (all_bool rs) eqn:Hb; [|discriminate].
  apply obind_some in Ht as (es & Hl & Ht). apply option_map_some in Ht as (e & Hu & ->).
  unfold eval_boolop in He.
  assert (He' : exists bs, all_vb vs = Some bs /\
            v = VB (match op with BoAnd => forallb id bs | BoOr => existsb id bs end)).
  { destruct vs; [discriminate|]. apply option_map_some in He as (bs & H1 & ->). now exists bs. }
  destruct He' as (bs & Hv & ->).
  rewrite (boolop_vals _ _ _ HF _ _ Hb Hl Hv). rewrite <- (unfold_bop_spec rho op es e Hu).
  apply sem_mk_bool.
Qed.

Lemma trans_un_sound rho op r v r' v' :
  sem rho r v -> trans_un op r = Some r' -> eval_un op v = Some v' -> sem rho r' v'.
Proof.
  intros Hs Ht He. destruct op; cbn [trans_un] in Ht; [| |discriminate].
  - destruct v; try discriminate. cbn in He. injection He as <-.
    destruct r as [t tr]. cbn [fst snd] in Ht. destruct t; try discriminate.
    apply option_map_some in Ht as (e & Hl & ->). apply leaf_some in Hl. subst tr.
    pose proof (sem_leaf_bool _ _ _ _ Hs eq_refl) as E. injection E as ->. reflexivity.
  - destruct v as [|w n| | |]; try discriminate. cbn in He. injection He as <-.
    destruct (is_qtype (fst r)) eqn:Q; [|discriminate].
    unfold lift in Ht. apply option_map_some in Ht as (te' & Ht & ->).
    apply option_map_some in Ht as (te & Ht & ->).
    pose proof (sem_type _ _ _ Hs) as T. cbn [type_of] in T. symmetry in T.
    destruct (sem_qint _ _ _ _ _ Ht T Hs) as [[G1 G2] E]. injection E as ->.
    destruct (bitwise_not_spec rho te) as (B1 & B2 & B3 & _).
    apply sem_qint_out; [congruence|congruence|]. rewrite B3, G2. reflexivity.
Qed.

(* ================================================================== *)
(* IfExp                                                               *)
(* ================================================================== *)
Lemma zip_ite_spec rho c : forall lt lf r, zip_ite c lt lf = Some r ->
  length (flat_map flat lt) = length (flat_map flat lf) ->
  map (beval rho) (flat_map flat r) =
    if beval rho c then map (beval rho) (flat_map flat lt) else map (beval rho) (flat_map flat lf).
Proof.
  induction lt as [|t lt IH]; intros [|f lf] r H Hlen; cbn [zip_ite] in H.
  - injection H as <-. now destruct (beval rho c).
  - injection H as <-. change (length (flat_map flat [])) with 0%nat in Hlen. symmetry in Hlen.
    apply length_zero_iff_nil in Hlen. rewrite Hlen. now destruct (beval rho c).
  - injection H as <-. apply length_zero_iff_nil in Hlen. rewrite Hlen. now destruct (beval rho c).
  - destruct (leaf t) as [a|] eqn:Ea; [|discriminate]. destruct (leaf f) as [b|] eqn:Eb; [|discriminate].
    destruct (zip_ite c lt lf) as [r'|] eqn:Er; [|discriminate]. injection H as <-.
    apply leaf_some in Ea, Eb. subst t f. cbn [flat_map flat app map] in *.
    injection Hlen as Hlen. rewrite (IH _ _ Er Hlen), beval_ite. now destruct (beval rho c).
Qed.

Lemma if_nonbool_sound rho cb t f T vt vf r :
  sem rho t vt -> sem rho f vf -> fst t = T -> T = fst f ->
  match snd t, snd f with
  | Nd lt, Nd lf => option_map (fun r => (T, Nd r)) (zip_ite cb lt lf)
  | _, _ => None
  end = Some r ->
  sem rho r (if beval rho cb then vt else vf).
Proof.
  intros Ht Hf E E' H. destruct t as [T1 [?|lt]], f as [T2 [?|lf]]; cbn [fst snd] in *; try discriminate. subst T1 T2.
  apply option_map_some in H as (r0 & Hz & ->).
  pose proof (decode_type _ _ _ Ht) as [_ L1]. pose proof (decode_type _ _ _ Hf) as [_ L2].
  cbn [fst snd flat] in L1, L2. rewrite map_length in L1, L2.
  unfold sem, den. cbn [fst snd flat]. rewrite (zip_ite_spec rho cb lt lf r0 Hz) by congruence.
  destruct (beval rho cb); assumption.
Qed.

Lemma ty_eq_qint_false a b : ty_eq (TQint a) (TQint b) = false -> a <> b.
Proof. cbn [ty_eq]. intros H. now apply Nat.eqb_neq. Qed.

Lemma trans_if_sound rho c t f vc vt vf r v :
  sem rho c vc -> sem rho t vt -> sem rho f vf ->
  trans_if c t f = Some r -> eval_if vc vt vf = Some v -> sem rho r v.
Proof.
  intros Hc Ht Hf Htr Hev. unfold trans_if in Htr.
  destruct c as [tc trc]. cbn [fst snd] in Htr. destruct tc; try discriminate.
  apply obind_some in Htr as (cb & Hl & Htr). apply leaf_some in Hl. subst trc.
  pose proof (sem_leaf_bool _ _ _ _ Hc eq_refl) as ->. cbn [eval_if] in Hev.
  apply obind_some in Htr as ([t' f'] & Hfill & Htr).
  pose proof (sem_type _ _ _ Ht) as Tt. pose proof (sem_type _ _ _ Hf) as Tf.
  assert (G : exists vt' vf', sem rho t' vt' /\ sem rho f' vf' /\ fst t' = fst f'
                /\ v = if beval rho cb then vt' else vf').
  { rewrite Tt, Tf in Hev. destruct (ty_eq (fst t) (fst f)) eqn:E.
    - injection Hfill as <- <-. injection Hev as <-. apply ty_eq_true in E. now exists vt, vf.
    - destruct vt as [|wt x| | |]; try discriminate. destruct vf as [|wf y| | |]; try discriminate.
      injection Hev as <-. cbn [type_of] in Tt, Tf. symmetry in Tt, Tf.
      rewrite Tt, Tf in Hfill. cbn [is_qtype andb] in Hfill.
      apply obind_some in Hfill as (tt & Htt & Hfill). apply obind_some in Hfill as (ft & Hft & Hfill).
      destruct (sem_qint _ _ _ _ _ Htt Tt Ht) as [[Gt1 Gt2] Et]. injection Et as ->.
      destruct (sem_qint _ _ _ _ _ Hft Tf Hf) as [[Gf1 Gf2] Ef]. injection Ef as ->.
      rewrite Tt, Tf in E. apply ty_eq_qint_false in E.
      unfold bit_size in Hfill. cbn [ty_size] in Hfill.
      destruct (Nat.ltb_spec wf wt) as [W|W].
      + injection Hfill as <- <-. exists (VI wt (bv rho (snd tt))), (VI wt (bv rho (snd ft))).
        replace (Nat.max wt wf) with wt by lia. repeat split.
        * exact Ht.
        * apply sem_qint_out.
          -- rewrite fill_type. unfold bit_size. cbn [ty_size]. destruct (Nat.leb_spec wt (length (snd ft))); [lia|reflexivity].
          -- rewrite fill_length. unfold bit_size. cbn [ty_size]. lia.
          -- apply fill_bv.
        * unfold of_texp. cbn [fst]. rewrite Tt, fill_type. unfold bit_size. cbn [ty_size].
          destruct (Nat.leb_spec wt (length (snd ft))); [lia|reflexivity].
        * now destruct (beval rho cb).
      + destruct (Nat.ltb_spec wt wf) as [W'|W']; [|lia].
        injection Hfill as <- <-. exists (VI wf (bv rho (snd tt))), (VI wf (bv rho (snd ft))).
        replace (Nat.max wt wf) with wf by lia. repeat split.
        * apply sem_qint_out.
          -- rewrite fill_type. unfold bit_size. cbn [ty_size]. destruct (Nat.leb_spec wf (length (snd tt))); [lia|reflexivity].
          -- rewrite fill_length. unfold bit_size. cbn [ty_size]. lia.
          -- apply fill_bv.
        * exact Hf.
        * unfold of_texp. cbn [fst]. rewrite Tf, fill_type. unfold bit_size. cbn [ty_size].
          destruct (Nat.leb_spec wf (length (snd tt))); [lia|reflexivity].
        * now destruct (beval rho cb). }
  destruct G as (vt' & vf' & Ht' & Hf' & E & ->).
  destruct (fst t') eqn:T; try (eapply if_nonbool_sound; eassumption).
  apply obind_some in Htr as (a & Ha & Htr). apply obind_some in Htr as (b & Hb & Htr). injection Htr as <-.
  apply leaf_some in Ha, Hb. destruct t' as [T1 tr1], f' as [T2 tr2]. cbn [fst snd] in *. subst.
  pose proof (sem_leaf_bool _ _ _ _ Ht' eq_refl) as ->. pose proof (sem_leaf_bool _ _ _ _ Hf' eq_refl) as ->.
  unfold sem, den. cbn [fst snd flat map decode]. rewrite beval_ite. now destruct (beval rho cb).
Qed.

(* ================================================================== *)
(* Compare                                                             *)
(* ================================================================== *)
Lemma bits_eqb_zip x y : length x = length y ->
  (bits_val x =? bits_val y) = forallb eqb2 (combine x y).
Proof.
  intros H. rewrite <- eq_sem_spec, eq_sem_zip. rewrite H, skipn_all. rewrite <- H, skipn_all.
  cbn [bits_val]. rewrite N.eqb_refl. now rewrite !andb_true_r.
Qed.

Lemma combine_app {A B} (a1 a2 : list A) (b1 b2 : list B) : length a1 = length b1 ->
  combine (a1 ++ a2) (b1 ++ b2) = combine a1 b1 ++ combine a2 b2.
Proof.
  revert b1; induction a1 as [|x a1 IH]; intros [|y b1] H; cbn in *; try discriminate; [reflexivity|].
  f_equal. apply IH. now injection H.
Qed.

Lemma forallb_combine_split {A} (f : A * A -> bool) n (x y : list A) :
  length (firstn n x) = length (firstn n y) ->
  forallb f (combine x y) = forallb f (combine (firstn n x) (firstn n y)) && forallb f (combine (skipn n x) (skipn n y)).
Proof.
  intros H. rewrite <- (firstn_skipn n x) at 1. rewrite <- (firstn_skipn n y) at 1.
  rewrite combine_app by exact H. apply forallb_app.
Qed.

Definition non_tuple (t : ty) : bool := match t with TTuple _ => false | _ => true end.

Lemma tuple_eq_bits_spec rho : forall args lb rb c0 c,
  tuple_eq_bits args lb rb c0 = Some c ->
  length lb = list_sum (map ty_size args) -> length rb = list_sum (map ty_size args) ->
  beval rho c = beval rho c0 && forallb eqb2 (combine (map (beval rho) lb) (map (beval rho) rb)).
Proof.
  induction args as [|a args IH]; intros lb rb c0 c H Ll Lr; cbn [tuple_eq_bits] in H.
  - injection H as <-. cbn in Ll, Lr. apply length_zero_iff_nil in Ll, Lr. subst. cbn. now rewrite andb_true_r.
  - cbn [map] in Ll, Lr. change (list_sum (ty_size a :: map ty_size args)) with (ty_size a + list_sum (map ty_size args))%nat in Ll, Lr.
    assert (H' : tuple_eq_bits args (skipn (ty_size a) lb) (skipn (ty_size a) rb)
                   (eq_zip (firstn (ty_size a) lb) (firstn (ty_size a) rb) c0) = Some c).
    { destruct a; try exact H; try discriminate;
        (destruct ((_ <=? length lb)%nat && (_ <=? length rb)%nat); [exact H|discriminate]). }
    clear H. rewrite (IH _ _ _ _ H') by (rewrite skipn_length; lia).
    rewrite eq_zip_spec, <- andb_assoc. f_equal.
    rewrite (forallb_combine_split eqb2 (ty_size a) (map (beval rho) lb) (map (beval rho) rb)).
    + now rewrite !firstn_map, !skipn_map.
    + rewrite !firstn_length, !map_length. lia.
Qed.

Definition vals_eqb := fix go (l m : list value) : bool :=
  match l, m with
  | [], [] => true
  | x :: l', y :: m' => value_eqb x y && go l' m'
  | _, _ => false
  end.
Lemma value_eqb_tuple l m : value_eqb (VT l) (VT m) = vals_eqb l m.
Proof. reflexivity. Qed.

Lemma decode_scalar_eqb t b1 b2 a1 a2 : non_tuple t = true ->
  decode t b1 = Some a1 -> decode t b2 = Some a2 -> value_eqb a1 a2 = forallb eqb2 (combine b1 b2).
Proof.
  intros NT H1 H2. destruct t as [|w|i f| |l]; [| | | |discriminate].
  - apply decode_bool in H1 as (p & -> & ->). apply decode_bool in H2 as (q & -> & ->).
    cbn. unfold eqb2. cbn. now rewrite andb_true_r.
  - apply decode_qint in H1 as (L1 & ->). apply decode_qint in H2 as (L2 & ->).
    cbn [value_eqb]. rewrite Nat.eqb_refl. cbn [andb]. apply bits_eqb_zip. congruence.
  - apply decode_qfixed in H1 as (L1 & ->). apply decode_qfixed in H2 as (L2 & ->).
    cbn [value_eqb]. rewrite !Nat.eqb_refl. cbn [andb]. unfold fix_val.
    rewrite <- (eqb_qrepr i f b1 b2 L1 L2). apply bits_eqb_zip. congruence.
  - apply decode_qchar in H1 as (L1 & ->). apply decode_qchar in H2 as (L2 & ->).
    cbn [value_eqb]. apply bits_eqb_zip. congruence.
Qed.

Lemma decode_list_eqb : forall args b1 b2 l m, forallb non_tuple args = true ->
  decode_list args b1 = Some l -> decode_list args b2 = Some m ->
  vals_eqb l m = forallb eqb2 (combine b1 b2).
Proof.
  induction args as [|x args IH]; intros b1 b2 l m NT H1 H2; cbn [decode_list] in H1, H2.
  - destruct b1; [|discriminate]. destruct b2; [|discriminate]. injection H1 as <-. injection H2 as <-. reflexivity.
  - cbn [forallb] in NT. apply andb_true_iff in NT as [NT1 NT2].
    destruct (decode x (firstn (ty_size x) b1)) as [a1|] eqn:E1; [|discriminate].
    destruct (decode_list args (skipn (ty_size x) b1)) as [l'|] eqn:E1'; [|discriminate].
    destruct (decode x (firstn (ty_size x) b2)) as [a2|] eqn:E2; [|discriminate].
    destruct (decode_list args (skipn (ty_size x) b2)) as [m'|] eqn:E2'; [|discriminate].
    injection H1 as <-. injection H2 as <-. cbn [vals_eqb].
    rewrite (decode_scalar_eqb _ _ _ _ _ NT1 E1 E2), (IH _ _ _ _ NT2 E1' E2').
    symmetry. apply forallb_combine_split.
    destruct (decode_type _ _ _ E1) as [_ L1]. destruct (decode_type _ _ _ E2) as [_ L2]. congruence.
Qed.

Lemma fix_align_spec i1 f1 i2 f2 i f : fix_align i1 f1 i2 f2 = Some (i, f) ->
  align_ok i1 f1 i2 f2 /\ i = Nat.max i1 i2 /\ f = Nat.max f1 f2.
Proof.
  unfold fix_align, align_ok. destruct (Nat.eqb i1 i2 && Nat.eqb f1 f2) eqn:E.
  - apply andb_true_iff in E as [E1 E2]. apply Nat.eqb_eq in E1, E2. subst. intros [= <- <-].
    rewrite !Nat.max_id. split; [now left|now split].
  - destruct (is_shipped_qfixed (Nat.max i1 i2) (Nat.max f1 f2)) eqn:S; [|discriminate].
    intros [= <- <-]. split; [now right|now split].
Qed.

(* the comparison methods QintImp / Qchar dispatch to, on operands of any two lengths *)
Lemma qint_cmp_sound rho op o cls lt rt res0 c :
  (cls = TQchar \/ exists w, cls = TQint w) ->
  cop_binop op = Some o -> is_qtype (fst lt) = true -> is_qtype (fst rt) = true ->
  type_binop cls o lt rt = Some res0 -> num_cmp op (bv rho (snd lt)) (bv rho (snd rt)) = Some c ->
  exists e, res0 = (TBool, [e]) /\ beval rho e = c.
Proof.
  intros Hcls Ho Ql Qr Hb Hc.
  destruct (qint_eq_spec lt rt Ql Qr) as [Heq Hneq].
  assert (Ord : (snd lt <> [] /\ snd rt <> []) \/
                (qint_gt lt rt = None /\ qint_lt lt rt = None /\ qint_lte lt rt = None /\ qint_gte lt rt = None)).
  { destruct (snd lt) eqn:E1; [right; apply qint_order_raises; now left|].
    destruct (snd rt) eqn:E2; [right; apply qint_order_raises; now right|]. left. split; discriminate. }
  assert (Hb' : match o with
                | OEq => qint_eq lt rt | ONeq => qint_neq lt rt
                | OGt => qint_gt lt rt | OLt => qint_lt lt rt | OLte => qint_lte lt rt | OGte => qint_gte lt rt
                | _ => None end = Some res0).
  { destruct Hcls as [->|[w ->]]; cbn [type_binop] in Hb; destruct o; try exact Hb; try discriminate;
      destruct op; discriminate. }
  destruct op; cbn [cop_binop] in Ho; try discriminate; injection Ho as <-; cbn [num_cmp] in Hc; injection Hc as <-.
  - exact (cmp_val_sem rho _ _ _ Heq Hb').
  - exact (cmp_val_sem rho _ _ _ Hneq Hb').
  - destruct Ord as [[N1 N2]|(A & B & C & D)]; [|congruence].
    destruct (qint_order_spec lt rt Ql Qr N1 N2) as (_ & H & _ & _). exact (cmp_val_sem rho _ _ _ H Hb').
  - destruct Ord as [[N1 N2]|(A & B & C & D)]; [|congruence].
    destruct (qint_order_spec lt rt Ql Qr N1 N2) as (_ & _ & H & _). exact (cmp_val_sem rho _ _ _ H Hb').
  - destruct Ord as [[N1 N2]|(A & B & C & D)]; [|congruence].
    destruct (qint_order_spec lt rt Ql Qr N1 N2) as (H & _ & _ & _). exact (cmp_val_sem rho _ _ _ H Hb').
  - destruct Ord as [[N1 N2]|(A & B & C & D)]; [|congruence].
    destruct (qint_order_spec lt rt Ql Qr N1 N2) as (_ & _ & _ & H). exact (cmp_val_sem rho _ _ _ H Hb').
Qed.

Lemma qfixed_cmp_sound rho op o i1 f1 i2 f2 l r res0 i f c :
  cop_binop op = Some o -> fix_align i1 f1 i2 f2 = Some (i, f) -> (0 < i + f)%nat ->
  length l = (i1 + f1)%nat -> length r = (i2 + f2)%nat ->
  type_binop (TQfixed i1 f1) o (TQfixed i1 f1, l) (TQfixed i2 f2, r) = Some res0 ->
  num_cmp op (fxv rho i1 l * pw (f - f1)) (fxv rho i2 r * pw (f - f2)) = Some c ->
  exists e, res0 = (TBool, [e]) /\ beval rho e = c.
Proof.
  intros Ho Ha Hpos Ll Lr Hb Hc. apply fix_align_spec in Ha as (Hok & -> & ->).
  destruct (qfixed_cmp_mixed_spec i1 f1 i2 f2 l r Hok Ll Lr Hpos) as (H1 & H2 & H3 & H4 & H5 & H6).
  destruct op; cbn [cop_binop] in Ho; try discriminate; injection Ho as <-; cbn [num_cmp] in Hc; injection Hc as <-;
    cbn [type_binop] in Hb.
  - exact (cmp_val_sem rho _ _ _ H1 Hb).
  - exact (cmp_val_sem rho _ _ _ H2 Hb).
  - exact (cmp_val_sem rho _ _ _ H4 Hb).
  - exact (cmp_val_sem rho _ _ _ H5 Hb).
  - exact (cmp_val_sem rho _ _ _ H3 Hb).
  - exact (cmp_val_sem rho _ _ _ H6 Hb).
Qed.

Lemma sem_qchar rho r te v : to_texp r = Some te -> fst r = TQchar -> sem rho r v ->
  fst te = TQchar /\ length (snd te) = 8%nat /\ v = VC (bv rho (snd te)).
Proof.
  intros Ht Hty H. destruct (to_texp_some _ _ Ht) as [T S]. unfold sem, den in H. rewrite Hty, S, flat_of_list in H.
  apply decode_qchar in H as [Hl ->]. rewrite map_length in Hl. repeat split; congruence.
Qed.

Lemma cmp_result rho res0 e c res :
  res0 = (TBool, [e]) -> beval rho e = c ->
  match snd res0 with [e] => Some (fst res0, L e) | _ => None end = Some res -> sem rho res (VB c).
Proof. intros -> <- H. cbn in H. injection H as <-. apply sem_mk_bool. Qed.

Lemma trans_cmp_sound rho op l r vl vr res v :
  sem rho l vl -> sem rho r vr -> trans_cmp op l r = Some res -> eval_cmp op vl vr = Some v -> sem rho res v.
Proof.
  intros Hl Hr Ht He.
  pose proof (sem_type _ _ _ Hl) as Tl. pose proof (sem_type _ _ _ Hr) as Tr.
  destruct l as [tl trl], r as [tr trr]. cbn [fst] in Tl, Tr. subst tl tr. unfold trans_cmp in Ht.
  destruct vl as [x|wl x|i1 f1 x|x|ls]; destruct vr as [y|wr y|i2 f2 y|y|ms]; try discriminate;
    cbn [fst snd type_of] in Ht.
  - (* bool *)
    apply obind_some in Ht as (a & Ha & Ht). apply obind_some in Ht as (b & Hb & Ht).
    apply leaf_some in Ha, Hb. cbn [snd] in Ha, Hb. subst trl trr.
    pose proof (sem_leaf_bool _ _ _ _ Hl eq_refl) as E1. pose proof (sem_leaf_bool _ _ _ _ Hr eq_refl) as E2.
    injection E1 as ->. injection E2 as ->.
    destruct op; try discriminate; injection Ht as <-; cbn [eval_cmp] in He; injection He as <-;
      unfold sem, den; cbn [fst snd flat map decode qbool_eq qbool_neq].
    + now rewrite beval_b_eq.
    + now rewrite beval_b_neq.
  - (* Qint *)
    cbn [is_qtype comparable is_qint andb] in Ht.
    apply obind_some in Ht as (o & Ho & Ht). apply obind_some in Ht as (lt & Hlt & Ht).
    apply obind_some in Ht as (rt & Hrt & Ht). apply obind_some in Ht as (res0 & Hb & Ht).
    destruct (sem_qint _ _ _ _ _ Hlt eq_refl Hl) as [[G1 G2] E1]. injection E1 as ->.
    destruct (sem_qint _ _ _ _ _ Hrt eq_refl Hr) as [[G3 G4] E2]. injection E2 as ->.
    cbn [eval_cmp] in He. apply option_map_some in He as (c & Hc & ->).
    assert (Ql : is_qtype (fst lt) = true) by now rewrite G1.
    assert (Qr : is_qtype (fst rt) = true) by now rewrite G3.
    destruct (qint_cmp_sound rho op o (TQint wl) lt rt res0 c (or_intror (ex_intro _ wl eq_refl)) Ho Ql Qr Hb Hc)
      as (e & E & Ev).
    exact (cmp_result rho _ _ _ _ E Ev Ht).
  - (* Qfixed *)
    cbn [is_qtype comparable is_qfixed andb] in Ht.
    apply obind_some in Ht as (o & Ho & Ht). apply obind_some in Ht as (lt & Hlt & Ht).
    apply obind_some in Ht as (rt & Hrt & Ht). apply obind_some in Ht as (res0 & Hb & Ht).
    destruct (sem_qfixed _ _ _ _ _ _ Hlt eq_refl Hl) as (G1 & G2 & E1). injection E1 as ->.
    destruct (sem_qfixed _ _ _ _ _ _ Hrt eq_refl Hr) as (G3 & G4 & E2). injection E2 as ->.
    destruct lt as [T1 l0], rt as [T2 r0]. cbn [fst snd] in *. subst T1 T2.
    cbn [eval_cmp] in He. destruct (fix_align i1 f1 i2 f2) as [[i f]|] eqn:Ha; [|discriminate].
    destruct (Nat.ltb_spec 0 (i + f)) as [Hpos|]; [|discriminate].
    apply option_map_some in He as (c & Hc & ->).
    destruct (qfixed_cmp_sound rho op o i1 f1 i2 f2 l0 r0 res0 i f c Ho Ha Hpos G2 G4 Hb Hc) as (e & E & Ev).
    exact (cmp_result rho _ _ _ _ E Ev Ht).
  - (* Qchar *)
    cbn [is_qtype comparable andb] in Ht.
    apply obind_some in Ht as (o & Ho & Ht). apply obind_some in Ht as (lt & Hlt & Ht).
    apply obind_some in Ht as (rt & Hrt & Ht). apply obind_some in Ht as (res0 & Hb & Ht).
    destruct (sem_qchar _ _ _ _ Hlt eq_refl Hl) as (G1 & G2 & E1). injection E1 as ->.
    destruct (sem_qchar _ _ _ _ Hrt eq_refl Hr) as (G3 & G4 & E2). injection E2 as ->.
    assert (Ql : is_qtype (fst lt) = true) by now rewrite G1.
    assert (Qr : is_qtype (fst rt) = true) by now rewrite G3.
    assert (Hc : exists c, num_cmp op (bv rho (snd lt)) (bv rho (snd rt)) = Some c /\ v = VB c).
    { cbn [eval_cmp] in He. destruct op; try discriminate; apply option_map_some in He as (c & Hc & ->); now exists c. }
    destruct Hc as (c & Hc & ->).
    destruct (qint_cmp_sound rho op o TQchar lt rt res0 c (or_introl eq_refl) Ho Ql Qr Hb Hc) as (e & E & Ev).
    exact (cmp_result rho _ _ _ _ E Ev Ht).
  - (* tuples *)
    cbn [eval_cmp] in He.
    destruct (ty_eq (type_of (VT ls)) (type_of (VT ms))) eqn:TE; [|discriminate].
    destruct (flat_tuple_ty (type_of (VT ls))) eqn:FT; [|discriminate]. cbn [andb] in He.
    apply ty_eq_true in TE. cbn [type_of] in TE, FT, Ht. injection TE as TE. rewrite <- TE in *.
    destruct (map type_of ls) as [|a0 al] eqn:Eargs; [discriminate|]. cbn [flat_tuple_ty] in FT.
    rewrite ty_eq_refl in Ht. cbn [negb] in Ht.
    assert (Ht' : obind (leaves trl) (fun lb => obind (leaves trr) (fun rb =>
              obind (tuple_eq_bits (a0 :: al) lb rb btrue) (fun c =>
                Some (TBool, L (match op with CoNe => BNot c | _ => c end))))) = Some res
            /\ (op = CoEq \/ op = CoNe)).
    { destruct op; try discriminate; (split; [exact Ht|]); [now left|now right]. }
    clear Ht. destruct Ht' as [Ht Hop].
    apply obind_some in Ht as (lb & Hlb & Ht). apply obind_some in Ht as (rb & Hrb & Ht).
    apply obind_some in Ht as (c & Hc & Ht). injection Ht as <-.
    unfold sem, den in Hl, Hr. cbn [fst snd type_of] in Hl, Hr. rewrite Eargs in Hl. rewrite <- TE in Hr.
    rewrite (leaves_flat _ _ Hlb) in Hl. rewrite (leaves_flat _ _ Hrb) in Hr.
    destruct (decode_type _ _ _ Hl) as [_ L1]. destruct (decode_type _ _ _ Hr) as [_ L2].
    rewrite map_length in L1, L2. cbn [ty_size] in L1, L2.
    pose proof (tuple_eq_bits_spec rho _ _ _ _ _ Hc L1 L2) as Hv. cbn [btrue beval geval bool_alg b_true andb] in Hv.
    rewrite decode_tuple in Hl, Hr.
    apply option_map_some in Hl as (ls' & Hl & E1). apply option_map_some in Hr as (ms' & Hr & E2).
    injection E1 as <-. injection E2 as <-.
    assert (NT : forallb non_tuple (a0 :: al) = true).
    { rewrite forallb_forall in FT. apply forallb_forall. intros t Ht. specialize (FT t Ht). now destruct t. }
    pose proof (decode_list_eqb _ _ _ _ _ NT Hl Hr) as Hq.
    destruct Hop as [-> | ->]; cbv iota in He; injection He as <-; fold vals_eqb; rewrite Hq, <- Hv; reflexivity.
Qed.

(* ================================================================== *)
(* BinOp                                                               *)
(* ================================================================== *)
Lemma wider_good tl tr wl wr : good tl wl -> good tr wr -> wider tl tr = TQint (Nat.max wl wr).
Proof.
  intros [T1 L1] [T2 L2]. unfold wider. rewrite L1, L2, T1, T2.
  destruct (Nat.ltb_spec wl wr); f_equal; lia.
Qed.

Lemma add_type_good tl tr wl wr : good tl wl -> good tr wr -> add_type (TQint wl) tl tr = TQint (Nat.max wl wr).
Proof.
  intros G1 G2. unfold add_type. rewrite (wider_good _ _ _ _ G1 G2). unfold bit_size. cbn [ty_size].
  destruct (Nat.ltb_spec (Nat.max wl wr) wl); [lia|reflexivity].
Qed.

Lemma bitwise_type_good tl tr wl wr : good tl wl -> good tr wr -> bitwise_type tl tr = TQint (Nat.max wl wr).
Proof.
  intros [T1 L1] [T2 L2]. unfold bitwise_type. rewrite L1, L2, T1, T2.
  destruct (Nat.ltb_spec wr wl); f_equal; lia.
Qed.

Lemma is_pow2_spec y : is_pow2 y = true -> y = p2 (N.to_nat (N.log2 y)).
Proof.
  unfold is_pow2. intros H. apply andb_true_iff in H as [_ H]. apply N.eqb_eq in H.
  unfold p2. now rewrite N2Nat.id.
Qed.

Lemma good_q te w : good te w -> is_qtype (fst te) = true.
Proof. intros [T _]. now rewrite T. Qed.

Lemma lift_some x res : lift x = Some res -> exists r0, x = Some r0 /\ res = of_texp r0.
Proof. unfold lift. apply option_map_some. Qed.

Lemma qint_bin_sound rho op sh lt rt wl wr res v :
  good lt wl -> good rt wr ->
  match op with
  | AoAdd => lift (type_binop (TQint wl) OAdd lt rt)
  | AoSub => lift (type_binop (TQint wl) OSub lt rt)
  | AoMul => lift (type_binop (TQint wl) OMul lt rt)
  | AoMod => lift (type_binop (TQint wl) OMod lt rt)
  | AoXor => lift (type_binop (TQint wl) OXor lt rt)
  | AoAnd => lift (type_binop (TQint wr) OAnd lt rt)
  | AoOr => lift (type_binop (TQint wl) OOr lt rt)
  | AoShl => match sh with Some (Some k) => lift (shift_left lt k) | _ => None end
  | AoShr => match sh with Some (Some k) => lift (shift_right lt k) | _ => None end
  | AoOther => None
  end = Some res ->
  eval_bin op sh (VI wl (bv rho (snd lt))) (VI wr (bv rho (snd rt))) = Some v ->
  sem rho res v.
Proof.
  intros G1 G2 Ht He. pose proof (good_q _ _ G1) as Ql. pose proof (good_q _ _ G2) as Qr.
  pose proof (good_wf _ _ G1) as W1. pose proof (good_wf _ _ G2) as W2.
  destruct G1 as [T1 L1]. destruct G2 as [T2 L2].
  assert (G1 : good lt wl) by now split. assert (G2 : good rt wr) by now split.
  destruct op; cbn [eval_bin] in He; try discriminate.
  - (* add *)
    apply lift_some in Ht as (r0 & Hb & ->). cbn [type_binop] in Hb. injection He as <-.
    pose proof (qint_add_spec (TQint wl) lt rt Ql Qr W1 W2) as H. cbv zeta in H. rewrite L1, L2 in H.
    exact (has_val_qint rho _ _ _ _ _ H Hb (add_type_good _ _ _ _ G1 G2)).
  - (* sub *)
    apply lift_some in Ht as (r0 & Hb & ->). cbn [type_binop] in Hb. injection He as <-.
    pose proof (qint_sub_dispatch lt rt Ql Qr W1 W2) as H. cbv zeta in H. rewrite L1, L2, T1 in H.
    exact (has_val_qint rho _ _ _ _ _ H Hb (wider_good _ _ _ _ G1 G2)).
  - (* mul *)
    apply lift_some in Ht as (r0 & Hb & ->). cbn [type_binop] in Hb.
    destruct (Nat.ltb_spec 0 wl) as [P1|]; [|discriminate]. destruct (Nat.ltb_spec 0 wr) as [P2|]; [|discriminate].
    cbn [andb] in He. injection He as <-.
    pose proof (qint_mul_spec lt rt wl wr G1 G2 P1 P2) as H. cbv zeta in H.
    exact (has_val_qint rho _ _ _ _ _ H Hb eq_refl).
  - (* mod *)
    apply lift_some in Ht as (r0 & Hb & ->). cbn [type_binop] in Hb.
    destruct (Nat.ltb_spec 0 wr) as [P2|]; [|discriminate].
    destruct (is_pow2 (bv rho (snd rt))) eqn:PW; [|discriminate]. cbn [andb] in He. injection He as <-.
    destruct (qint_mod_spec lt rt wr T2 P2 Ql W1 W2) as (r1 & E1 & Ty & Ln & _).
    destruct (qint_mod_pow2 lt rt wr T2 P2 Ql W1 W2) as (r2 & E2 & Hv).
    rewrite Hb in E1, E2. injection E1 as <-. injection E2 as <-.
    apply is_pow2_spec in PW. specialize (Hv rho _ PW). rewrite <- PW in Hv.
    apply sem_qint_out; [|rewrite Ln, L1; reflexivity|exact Hv].
    rewrite Ty, L1, T1. destruct (Nat.ltb_spec wr wl); f_equal; lia.
  - (* xor *)
    apply lift_some in Ht as (r0 & Hb & ->). cbn [type_binop] in Hb. injection He as <-.
    destruct (qint_bitwise_all_spec lt rt Ql Qr W1 W2) as (_ & _ & H). rewrite L1, L2 in H.
    exact (has_val_qint rho _ _ _ _ _ H Hb (bitwise_type_good _ _ _ _ G1 G2)).
  - (* and *)
    apply lift_some in Ht as (r0 & Hb & ->). cbn [type_binop] in Hb. injection He as <-.
    destruct (qint_bitwise_all_spec lt rt Ql Qr W1 W2) as (H & _ & _). rewrite L1, L2 in H.
    exact (has_val_qint rho _ _ _ _ _ H Hb (bitwise_type_good _ _ _ _ G1 G2)).
  - (* or *)
    apply lift_some in Ht as (r0 & Hb & ->). cbn [type_binop] in Hb. injection He as <-.
    destruct (qint_bitwise_all_spec lt rt Ql Qr W1 W2) as (_ & H & _). rewrite L1, L2 in H.
    exact (has_val_qint rho _ _ _ _ _ H Hb (bitwise_type_good _ _ _ _ G1 G2)).
  - (* shl *)
    destruct sh as [[k|]|]; try discriminate. injection He as <-.
    apply lift_some in Ht as (r0 & Hb & ->).
    destruct (shift_left_spec rho _ _ _ Hb) as (Ty & Ln & Hv).
    rewrite T1 in *. unfold bit_size in *. cbn [ty_size] in *.
    apply sem_qint_out; [exact Ty|rewrite Ln, L1; lia|exact Hv].
  - (* shr *)
    destruct sh as [[k|]|]; try discriminate. injection He as <-.
    apply lift_some in Ht as (r0 & Hb & ->).
    destruct (shift_right_spec rho _ _ _ Hb) as (Ty & Ln & Hv).
    rewrite T1 in *. unfold bit_size in *. cbn [ty_size] in *.
    apply sem_qint_out; [exact Ty|rewrite Ln, L1; lia|exact Hv].
Qed.

Lemma qfixed_addsub_sound rho op i1 f1 i2 f2 l r res v :
  length l = (i1 + f1)%nat -> length r = (i2 + f2)%nat ->
  match op with
  | AoAdd => lift (type_binop (TQfixed i1 f1) OAdd (TQfixed i1 f1, l) (TQfixed i2 f2, r))
  | AoSub => lift (type_binop (TQfixed i1 f1) OSub (TQfixed i1 f1, l) (TQfixed i2 f2, r))
  | _ => None
  end = Some res ->
  match fix_align i1 f1 i2 f2 with
  | Some (i, f) =>
      let xs := (fxv rho i1 l * pw (f - f1))%N in let ys := (fxv rho i2 r * pw (f - f2))%N in
      match op with
      | AoAdd => Some (VF i f ((xs + ys) mod pw (i + f))%N)
      | AoSub => Some (VF i f ((xs + pw (i + f) - ys) mod pw (i + f))%N)
      | _ => None
      end
  | None => None
  end = Some v ->
  sem rho res v.
Proof.
  intros Ll Lr Ht He. destruct (fix_align i1 f1 i2 f2) as [[i f]|] eqn:Ha; [|discriminate].
  apply fix_align_spec in Ha as (Hok & -> & ->). cbv zeta in He.
  destruct op; try discriminate; apply lift_some in Ht as (r0 & Hb & ->); cbn [type_binop] in Hb; injection He as <-.
  - destruct (qfixed_add_mixed_spec i1 f1 i2 f2 l r Hok Ll Lr) as (res0 & E & Ln & Hv). cbv zeta in E, Ln, Hv.
    rewrite Hb in E. injection E as ->. apply sem_qfixed_out; [exact Ln|apply Hv].
  - destruct (qfixed_sub_mixed_spec i1 f1 i2 f2 l r Hok Ll Lr) as (res0 & E & Ln & Hv). cbv zeta in E, Ln, Hv.
    rewrite Hb in E. injection E as ->. apply sem_qfixed_out; [exact Ln|apply Hv].
Qed.

(* a successful QfixedImp.mul had a constant, non-empty integer operand *)
Lemma qfixed_mul_const_r i f l wc cb r0 :
  qfixed_mul (TQfixed i f) (TQfixed i f, l) (TQint wc, cb) = Some r0 ->
  forallb is_const_bit cb = true /\ cb <> [].
Proof.
  unfold qfixed_mul, guard2. cbn [fst snd is_qtype is_qint andb obind]. unfold is_const. cbn [snd].
  destruct (forallb is_const_bit cb); cbn [negb]; [|discriminate].
  destruct cb; [discriminate|]. intros _. split; [reflexivity|discriminate].
Qed.
Lemma qfixed_mul_const_l i f l wc cb r0 :
  qfixed_mul (TQfixed i f) (TQint wc, cb) (TQfixed i f, l) = Some r0 ->
  forallb is_const_bit cb = true /\ cb <> [].
Proof.
  unfold qfixed_mul, guard2. cbn [fst snd is_qtype is_qint andb obind]. unfold is_const. cbn [snd].
  destruct (forallb is_const_bit cb); cbn [negb]; [|discriminate].
  destruct cb; [discriminate|]. intros _. split; [reflexivity|discriminate].
Qed.

Lemma trans_bin_sound rho op sh l r vl vr res v :
  sem rho l vl -> sem rho r vr -> trans_bin op sh l r = Some res -> eval_bin op sh vl vr = Some v ->
  sem rho res v.
Proof.
  intros Hl Hr Ht He.
  pose proof (sem_type _ _ _ Hl) as Tl. pose proof (sem_type _ _ _ Hr) as Tr.
  destruct l as [tl trl], r as [tr trr]. cbn [fst] in Tl, Tr. subst tl tr. unfold trans_bin in Ht.
  destruct vl as [x|wl x|i1 f1 x|x|ls]; destruct vr as [y|wr y|i2 f2 y|y|ms]; try discriminate;
    cbn [fst snd type_of is_bool is_qint is_qfixed is_qtype andb orb] in Ht.
  - (* bool *)
    cbn [eval_bin] in He.
    assert (Ht' : obind (leaf trl) (fun a => obind (leaf trr) (fun b =>
                    Some (TBool, L (match op with AoXor => BXor [a; b] | AoAnd => BAnd [a; b] | _ => BOr [a; b] end))))
                  = Some res /\ (op = AoXor \/ op = AoAnd \/ op = AoOr)).
    { destruct op; try discriminate; (split; [exact Ht|]); auto. }
    clear Ht. destruct Ht' as [Ht Hop].
    apply obind_some in Ht as (a & Ha & Ht). apply obind_some in Ht as (b & Hb & Ht). injection Ht as <-.
    apply leaf_some in Ha, Hb. subst trl trr.
    pose proof (sem_leaf_bool _ _ _ _ Hl eq_refl) as E1. pose proof (sem_leaf_bool _ _ _ _ Hr eq_refl) as E2.
    injection E1 as ->. injection E2 as ->.
    destruct Hop as [-> | [-> | ->]]; injection He as <-; unfold sem, den; cbn [fst snd flat map decode].
    + now rewrite beval_xor2.
    + now rewrite beval_and2.
    + now rewrite beval_or2.
  - (* Qint, Qint *)
    assert (Ht' : obind (to_texp (TQint wl, trl)) (fun lt =>
              match op with
              | AoShl => match sh with Some (Some k) => lift (shift_left lt k) | _ => None end
              | AoShr => match sh with Some (Some k) => lift (shift_right lt k) | _ => None end
              | AoOther => None
              | _ => obind (to_texp (TQint wr, trr)) (fun rt =>
                  match op with
                  | AoAdd => lift (type_binop (TQint wl) OAdd lt rt)
                  | AoSub => lift (type_binop (TQint wl) OSub lt rt)
                  | AoMul => lift (type_binop (TQint wl) OMul lt rt)
                  | AoMod => lift (type_binop (TQint wl) OMod lt rt)
                  | AoXor => lift (type_binop (TQint wl) OXor lt rt)
                  | AoAnd => lift (type_binop (TQint wr) OAnd lt rt)
                  | _ => lift (type_binop (TQint wl) OOr lt rt)
                  end)
              end) = Some res).
    { destruct op; exact Ht. }
    clear Ht. apply obind_some in Ht' as (lt & Hlt & Ht).
    destruct (sem_qint _ _ _ _ _ Hlt eq_refl Hl) as [G1 E1]. injection E1 as ->.
    (* the right operand: a flat list whenever it is used; for shifts only its value matters *)
    destruct (to_texp (TQint wr, trr)) as [rt|] eqn:Hrt.
    + destruct (sem_qint _ _ _ _ _ Hrt eq_refl Hr) as [G2 E2]. injection E2 as ->.
      apply (qint_bin_sound rho op sh lt rt wl wr res v G1 G2); [|exact He].
      destruct op; try exact Ht; cbn [obind] in Ht; exact Ht.
    + destruct op; cbn [obind] in Ht; try discriminate.
      * (* shl *) destruct sh as [[k|]|]; try discriminate. cbn [eval_bin] in He. injection He as <-.
        apply lift_some in Ht as (r0 & Hb & ->). destruct G1 as [T1 L1].
        destruct (shift_left_spec rho _ _ _ Hb) as (Ty & Ln & Hv).
        rewrite T1 in *. unfold bit_size in *. cbn [ty_size] in *.
        apply sem_qint_out; [exact Ty|rewrite Ln, L1; lia|exact Hv].
      * (* shr *) destruct sh as [[k|]|]; try discriminate. cbn [eval_bin] in He. injection He as <-.
        apply lift_some in Ht as (r0 & Hb & ->). destruct G1 as [T1 L1].
        destruct (shift_right_spec rho _ _ _ Hb) as (Ty & Ln & Hv).
        rewrite T1 in *. unfold bit_size in *. cbn [ty_size] in *.
        apply sem_qint_out; [exact Ty|rewrite Ln, L1; lia|exact Hv].
  - (* Qint * Qfixed *)
    cbn [eval_bin] in He. destruct op; try discriminate. injection He as <-.
    apply obind_some in Ht as (lt & Hlt & Ht). apply obind_some in Ht as (rt & Hrt & Ht).
    apply lift_some in Ht as (r0 & Hb & ->).
    destruct (sem_qint _ _ _ _ _ Hlt eq_refl Hl) as [[T1 L1] E1]. injection E1 as ->.
    destruct (sem_qfixed _ _ _ _ _ _ Hrt eq_refl Hr) as (T2 & L2 & E2). injection E2 as ->.
    destruct lt as [T cb], rt as [T' l0]. cbn [fst snd] in *. subst T T'.
    destruct (qfixed_mul_const_l _ _ _ _ _ _ Hb) as [Hc Hne].
    destruct (qfixed_mul_left_spec i2 f2 l0 wl cb L2 Hne Hc) as (res0 & E & Ln & Hv).
    rewrite Hb in E. injection E as ->. apply sem_qfixed_out; [exact Ln|].
    rewrite Hv. now rewrite (is_const_bv rho cb Hc).
  - (* Qfixed * Qint *)
    cbn [eval_bin] in He. destruct op; try discriminate. injection He as <-.
    apply obind_some in Ht as (lt & Hlt & Ht). apply obind_some in Ht as (rt & Hrt & Ht).
    apply lift_some in Ht as (r0 & Hb & ->).
    destruct (sem_qfixed _ _ _ _ _ _ Hlt eq_refl Hl) as (T1 & L1 & E1). injection E1 as ->.
    destruct (sem_qint _ _ _ _ _ Hrt eq_refl Hr) as [[T2 L2] E2]. injection E2 as ->.
    destruct lt as [T l0], rt as [T' cb]. cbn [fst snd] in *. subst T T'.
    destruct (qfixed_mul_const_r _ _ _ _ _ _ Hb) as [Hc Hne].
    destruct (qfixed_mul_spec i1 f1 l0 wr cb L1 Hne Hc) as (res0 & E & Ln & Hv).
    rewrite Hb in E. injection E as ->. apply sem_qfixed_out; [exact Ln|].
    rewrite Hv. now rewrite (is_const_bv rho cb Hc).
  - (* Qfixed, Qfixed *)
    cbn [eval_bin] in He.
    apply obind_some in Ht as (lt & Hlt & Ht).
    destruct (sem_qfixed _ _ _ _ _ _ Hlt eq_refl Hl) as (T1 & L1 & E1). injection E1 as ->.
    assert (Ht' : obind (to_texp (TQfixed i2 f2, trr)) (fun rt =>
              match op with
              | AoAdd => lift (type_binop (TQfixed i1 f1) OAdd lt rt)
              | AoSub => lift (type_binop (TQfixed i1 f1) OSub lt rt)
              | _ => None
              end) = Some res).
    { destruct op; try exact Ht; try discriminate; destruct (fix_align i1 f1 i2 f2) as [[? ?]|]; discriminate. }
    clear Ht. apply obind_some in Ht' as (rt & Hrt & Ht).
    destruct (sem_qfixed _ _ _ _ _ _ Hrt eq_refl Hr) as (T2 & L2 & E2). injection E2 as ->.
    destruct lt as [T l0], rt as [T' r0]. cbn [fst snd] in *. subst T T'.
    exact (qfixed_addsub_sound rho op i1 f1 i2 f2 l0 r0 res v L1 L2 Ht He).
Qed.

(* ================================================================== *)
(* int(), float(), constants, casts                                    *)
(* ================================================================== *)
Lemma fxv_split rho i l : (i <= length l)%nat ->
  fxv rho i l = bv rho (rev (skipn i l)) + p2 (length l - i) * bv rho (firstn i l).
Proof.
  intros H. unfold fxv, qrepr. rewrite bv_app, rev_length, skipn_length. reflexivity.
Qed.

Lemma trans_int_sound rho r v r' v' :
  sem rho r v -> trans_int r = Some r' -> eval_int v = Some v' -> sem rho r' v'.
Proof.
  intros Hs Ht He. pose proof (sem_type _ _ _ Hs) as T. destruct r as [t tr]. cbn [fst] in T. subst t.
  unfold trans_int in Ht. destruct v as [|w n|i f n| |]; try discriminate; cbn [fst snd type_of] in Ht; cbn [eval_int] in He.
  - injection Ht as <-. injection He as <-. exact Hs.
  - injection He as <-. apply obind_some in Ht as (l & Hl & Ht).
    destruct (existsb (Nat.eqb (length (firstn i l))) shipped_qint); [|discriminate]. injection Ht as <-.
    assert (Htx : to_texp (TQfixed i f, tr) = Some (TQfixed i f, l)) by (unfold to_texp; cbn [fst snd]; now rewrite Hl).
    destruct (sem_qfixed _ _ _ _ _ _ Htx eq_refl Hs) as (_ & Ln & E). cbn [snd] in Ln, E. injection E as ->.
    assert (Lf : length (firstn i l) = i) by (rewrite firstn_length; lia).
    rewrite Lf. change (TQint i, of_list (firstn i l)) with (of_texp (TQint i, firstn i l)).
    apply sem_qint_out; [reflexivity|exact Lf|]. cbn [snd].
    rewrite fxv_split by lia. replace (length l - i)%nat with f by lia.
    pose proof (bv_lt rho (rev (skipn i l))) as B. rewrite rev_length, skipn_length in B.
    replace (length l - i)%nat with f in B by lia. change (pw f) with (p2 f).
    rewrite N.mul_comm, N.div_add by apply p2_nz. now rewrite N.div_small.
Qed.

Lemma qfixed_for_size_spec s t : qfixed_for_size s = Some t -> exists f, t = TQfixed s f.
Proof.
  unfold qfixed_for_size. destruct (find _ shipped_qfixed) as [[i f]|] eqn:E; [|discriminate].
  intros [= <-]. apply find_some in E as [_ E]. cbn [fst] in E. apply Nat.eqb_eq in E. subst. now exists f.
Qed.

Lemma trans_float_sound rho r v r' v' :
  sem rho r v -> trans_float r = Some r' -> eval_float v = Some v' -> sem rho r' v'.
Proof.
  intros Hs Ht He. pose proof (sem_type _ _ _ Hs) as T. destruct r as [t tr]. cbn [fst] in T. subst t.
  unfold trans_float in Ht. destruct v as [|w n|i f n| |]; try discriminate; cbn [fst snd type_of] in Ht; cbn [eval_float] in He.
  - apply obind_some in Ht as (l & Hl & Ht). apply obind_some in Ht as (tf & Htf & Ht). injection Ht as <-.
    assert (Htx : to_texp (TQint w, tr) = Some (TQint w, l)) by (unfold to_texp; cbn [fst snd]; now rewrite Hl).
    destruct (sem_qint _ _ _ _ _ Htx eq_refl Hs) as [[_ Ln] E]. cbn [snd] in Ln, E. injection E as ->.
    rewrite Ln in Htf. rewrite Htf in He. destruct (qfixed_for_size_spec _ _ Htf) as (f & ->). injection He as <-.
    apply sem_of_texp. rewrite fill_type, fill_bits. unfold bit_size. cbn [fst snd ty_size].
    assert (Ty : (if (w + f <=? length l)%nat then TQfixed w f else TQfixed w f) = TQfixed w f) by now destruct (w + f <=? length l)%nat.
    rewrite Ty. cbn [decode]. rewrite map_length, app_length, repeat_length, Ln.
    replace (w + (w + f - w))%nat with (w + f)%nat by lia. rewrite Nat.eqb_refl.
    do 2 f_equal. rewrite fix_val_map. replace (w + f - w)%nat with f by lia.
    rewrite fxv_split by (rewrite app_length, repeat_length; lia).
    rewrite app_length, repeat_length, Ln. replace (w + f - w)%nat with f by lia.
    rewrite skipn_app, Ln, Nat.sub_diag, skipn_all2 by lia. cbn [skipn app].
    rewrite firstn_app, Ln, Nat.sub_diag, firstn_all2 by lia. cbn [firstn]. rewrite app_nil_r.
    rewrite rev_repeat, bv_false. change (pw f) with (p2 f). lia.
  - injection Ht as <-. injection He as <-. exact Hs.
Qed.

Lemma const_int_search_find ws n w bits : const_int_search ws n = Some (w, bits) ->
  find (fun w => n <? pw w) ws = Some w /\ bits = qint_const w n.
Proof.
  induction ws as [|w0 ws IH]; cbn [const_int_search find]; [discriminate|].
  unfold pw at 1. destruct (n <? 2 ^ N.of_nat w0); [intros [= <- <-]; now split|exact IH].
Qed.

Lemma sem_qint_const rho w n : (0 < w)%nat -> n < p2 w -> sem rho (of_texp (qint_const_e w n)) (VI w n).
Proof.
  intros Hw Hn. destruct (qint_const_e_spec w n Hw) as (T & W & _ & Hv). destruct (Hv rho) as [_ Hb].
  apply sem_qint_out; [exact T| |].
  - unfold wf_te in W. rewrite W, T. reflexivity.
  - rewrite Hb. now apply N.mod_small.
Qed.

Lemma const_float_search_bits ts x i f bits : const_float_search ts x = Some (i, f, bits) ->
  bits = qfixed_const i f x.
Proof.
  induction ts as [|[i0 f0] ts IH]; cbn [const_float_search]; [discriminate|].
  destruct (_ && _); [intros [= <- <- <-]; reflexivity|exact IH].
Qed.

Lemma sem_qfixed_const rho i f x :
  sem rho (of_texp (TQfixed i f, map BConst (qfixed_const i f x))) (VF i f (fix_val i (qfixed_const i f x))).
Proof.
  apply sem_of_texp. cbn [fst snd decode]. rewrite map_beval_const.
  unfold qfixed_const. rewrite qfixed_to_bool_length, Nat.eqb_refl. reflexivity.
Qed.

Lemma sem_qchar_const rho c : c < 256 ->
  sem rho (of_texp (TQchar, map BConst (qchar_const c))) (VC c).
Proof.
  intros Hc. apply sem_of_texp. cbn [fst snd decode]. rewrite map_beval_const.
  rewrite qchar_const_runtime by exact Hc. unfold qchar_to_bool.
  rewrite (bin_to_bool_list_py_bin 8 c) by exact Hc. rewrite nbits_length. cbn [Nat.eqb].
  now rewrite bits_val_nbits_small.
Qed.

(* const_to_qtype on a constant that is not a bool *)
Lemma const_to_qtype_sound rho c te v : (forall b, c <> CBool b) ->
  const_to_qtype c = Some te -> eval_const c = Some v -> sem rho (of_texp te) v.
Proof.
  intros NB Ht He. destruct c as [b|z|neg x|cs|]; cbn [const_to_qtype eval_const] in *; try discriminate.
  - now destruct (NB b).
  - destruct (z <? 0)%Z; [discriminate|]. unfold const_int, const_to_qtype_int in Ht.
    destruct (const_int_search const_widths (Z.to_N z)) as [[w bits]|] eqn:E; [|discriminate]. injection Ht as <-.
    apply const_int_search_find in E as [Ef ->]. unfold const_width in He. unfold const_widths in Ef. rewrite Ef in He.
    injection He as <-. apply find_some in Ef as [Hin Hlt]. apply N.ltb_lt in Hlt.
    apply (sem_qint_const rho w (Z.to_N z)); [|exact Hlt].
    cbn [In] in Hin. repeat (destruct Hin as [<-|Hin]; [lia|]). destruct Hin.
  - destruct neg; [discriminate|]. unfold const_float in Ht.
    destruct (const_float_search shipped_qfixed x) as [[[i f] bits]|] eqn:E; [|discriminate].
    injection Ht as <-. injection He as <-. rewrite (const_float_search_bits _ _ _ _ _ E). apply sem_qfixed_const.
  - unfold const_char in Ht. destruct cs as [|c [|]]; try discriminate.
    destruct (N.ltb_spec c 256) as [Hc|]; [|discriminate]. injection Ht as <-. injection He as <-.
    now apply sem_qchar_const.
Qed.

Lemma trans_const_sound rho c r v : trans_const c = Some r -> eval_const c = Some v -> sem rho r v.
Proof.
  intros Ht He. destruct c as [b|z|neg x|cs|].
  - cbn in Ht, He. injection Ht as <-. injection He as <-. now destruct b.
  - cbn [trans_const] in Ht. destruct (z <? 0)%Z eqn:Z; [discriminate|].
    apply lift_some in Ht as (te & Ht & ->). eapply const_to_qtype_sound; try eassumption. discriminate.
  - cbn [trans_const] in Ht. destruct neg; [discriminate|].
    apply lift_some in Ht as (te & Ht & ->). eapply const_to_qtype_sound; try eassumption. discriminate.
  - cbn [trans_const] in Ht. apply lift_some in Ht as (te & Ht & ->).
    eapply const_to_qtype_sound; try eassumption. discriminate.
  - discriminate.
Qed.

Theorem shipped_qint_positive : forallb (fun w => 0 <? w)%nat shipped_qint = true.
Proof. vm_compute. reflexivity. Qed.

Lemma known_qint_pos w : known_type (TQint w) = true -> (0 < w)%nat.
Proof.
  cbn [known_type]. intros H. apply existsb_exists in H as (w' & Hin & E). apply Nat.eqb_eq in E. subst w'.
  pose proof shipped_qint_positive as P. rewrite forallb_forall in P. specialize (P _ Hin). now apply Nat.ltb_lt.
Qed.

Lemma z_mod_to_N_lt z w : Z.to_N (z mod 2 ^ Z.of_nat w)%Z < p2 w.
Proof.
  assert (Hm : (0 <= z mod 2 ^ Z.of_nat w < 2 ^ Z.of_nat w)%Z) by (apply Z.mod_pos_bound; apply Z.pow_pos_nonneg; lia).
  unfold p2. apply N2Z.inj_lt. rewrite Z2N.id by lia. rewrite N2Z.inj_pow. rewrite nat_N_Z. cbn. lia.
Qed.

Lemma cast_const_sound rho t c te v : cast_const t c = Some te -> eval_cast t c = Some v -> sem rho (of_texp te) v.
Proof.
  unfold cast_const, eval_cast. destruct (known_type t) eqn:K; cbn [negb]; [|discriminate].
  intros Ht He. destruct t as [|w|i f| |l]; try discriminate.
  - destruct c as [b|z|neg x|cs|]; try discriminate. injection Ht as <-. injection He as <-.
    apply sem_qint_const; [now apply known_qint_pos|apply z_mod_to_N_lt].
  - destruct c as [b|z|neg x|cs|]; try discriminate.
    + destruct (z <? 0)%Z; [discriminate|]. injection Ht as <-. injection He as <-. apply sem_qfixed_const.
    + destruct neg; [discriminate|]. injection Ht as <-. injection He as <-. apply sem_qfixed_const.
  - destruct c as [b|z|neg x|cs|]; try discriminate. unfold const_char in Ht.
    destruct cs as [|c [|]]; try discriminate. destruct (N.ltb_spec c 256) as [Hc|]; [|discriminate].
    injection Ht as <-. injection He as <-. now apply sem_qchar_const.
Qed.

(* ================================================================== *)
(* induction over expressions                                          *)
(* ================================================================== *)
Section pexp_ind2.
  Variable P : pexp -> Prop.
  Hypotheses (Hname : forall x, P (EName x)) (Hsub : forall x p, P (ESub x p))
    (Hbool : forall op l, Forall P l -> P (EBoolOp op l))
    (Hun : forall op a, P a -> P (EUn op a))
    (Hif : forall c t f, P c -> P t -> P f -> P (EIf c t f))
    (Hconst : forall c, P (EConst c)) (Hctup : forall l, P (EConstTup l))
    (Htup : forall l, Forall P l -> P (ETuple l))
    (Hcmp : forall op a b, P a -> P b -> P (ECmp op a b))
    (Hbin : forall op a b, P a -> P b -> P (EBin op a b))
    (Hcast : forall t c, P (ECast t c))
    (Hint : forall a, P a -> P (EInt a)) (Hfloat : forall a, P a -> P (EFloat a))
    (Hraise : P ERaise).
  Fixpoint pexp_ind2 (e : pexp) : P e :=
    let go := fix go (l : list pexp) : Forall P l :=
      match l with [] => Forall_nil _ | x :: r => Forall_cons x (pexp_ind2 x) (go r) end in
    match e with
    | EName x => Hname x | ESub x p => Hsub x p
    | EBoolOp op l => Hbool op l (go l)
    | EUn op a => Hun op a (pexp_ind2 a)
    | EIf c t f => Hif c t f (pexp_ind2 c) (pexp_ind2 t) (pexp_ind2 f)
    | EConst c => Hconst c | EConstTup l => Hctup l
    | ETuple l => Htup l (go l)
    | ECmp op a b => Hcmp op a b (pexp_ind2 a) (pexp_ind2 b)
    | EBin op a b => Hbin op a b (pexp_ind2 a) (pexp_ind2 b)
    | ECast t c => Hcast t c
    | EInt a => Hint a (pexp_ind2 a) | EFloat a => Hfloat a (pexp_ind2 a)
    | ERaise => Hraise
    end.
End pexp_ind2.

(* ================================================================== *)
(* names of bits                                                       *)
(* ================================================================== *)
Definition names_go (base : sname) := fix go (l : list ty) (k : nat) : list sname :=
  match l with
  | [] => []
  | x :: r => arg_names (base ++ [k]) x ++ go r (S k)
  end.
Lemma arg_names_tuple base l : arg_names base (TTuple l) = names_go base l 0.
Proof. reflexivity. Qed.

Lemma bit_names_length base n : length (bit_names base n) = n.
Proof. unfold bit_names. now rewrite map_length, seq_length. Qed.

Lemma arg_names_length : forall t base, length (arg_names base t) = ty_size t.
Proof.
  induction t as [|w|i f| |l IH] using ty_ind2; intros base; try apply bit_names_length; [reflexivity|].
  rewrite arg_names_tuple. cbn [ty_size]. generalize 0%nat.
  induction IH as [|x l Hx _ IHl]; intros k; cbn [names_go map]; [reflexivity|].
  change (list_sum (ty_size x :: map ty_size l)) with (ty_size x + list_sum (map ty_size l))%nat.
  now rewrite app_length, Hx, IHl.
Qed.

Lemma bits_val_testbit bs i : (i < length bs)%nat -> N.testbit (bits_val bs) (N.of_nat i) = nth i bs false.
Proof. intros H. rewrite <- (nbits_testbit (length bs) (bits_val bs) i H). now rewrite nbits_bits_val. Qed.

Lemma ty_good_tuple l : ty_good (TTuple l) = forallb ty_good l.
Proof. reflexivity. Qed.

Section Sound.
  Variable num : sname -> nat.
  Variable rho : nat -> bool.
  Definition rbit (s : sname) : bool := rho (num s).

  Lemma map_beval_sym bv : map (beval rho) (map (sym num) bv) = map rbit bv.
  Proof. rewrite map_map. reflexivity. Qed.

  Lemma flat_syms bv : flat (Nd (map (fun s => L (sym num s)) bv)) = map (sym num) bv.
  Proof. cbn [flat]. induction bv as [|s bv IH]; cbn [map flat_map flat app]; [reflexivity|now rewrite IH]. Qed.

  (* the names of element i of a tuple carry the element's value *)
  Lemma decode_names_elt base : forall l k vs i ti vi,
    decode_list l (map rbit (names_go base l k)) = Some vs ->
    nth_error l i = Some ti -> nth_error vs i = Some vi ->
    decode ti (map rbit (arg_names (base ++ [k + i]%nat) ti)) = Some vi.
  Proof.
    induction l as [|x l IH]; intros k vs i ti vi H Hi Hv; [destruct i; discriminate|].
    cbn [names_go decode_list] in H. rewrite map_app in H.
    rewrite firstn_app_exact in H by (now rewrite map_length, arg_names_length).
    rewrite skipn_app_exact in H by (now rewrite map_length, arg_names_length).
    destruct (decode x (map rbit (arg_names (base ++ [k]) x))) as [a|] eqn:Ea; [|discriminate].
    destruct (decode_list l (map rbit (names_go base l (S k)))) as [b|] eqn:Eb; [|discriminate].
    injection H as <-. destruct i as [|i]; cbn [nth_error] in Hi, Hv.
    - injection Hi as <-. injection Hv as <-. now rewrite Nat.add_0_r.
    - replace (k + S i)%nat with (S k + i)%nat by lia. eapply IH; eassumption.
  Qed.

  (* walking a subscript path through a canonically named value *)
  Lemma sub_walk : forall p t base v0 t' v,
    decode t (map rbit (arg_names base t)) = Some v0 ->
    sub_type t p = Some t' -> sub_val v0 p = Some v ->
    decode t' (map rbit (arg_names (base ++ p) t')) = Some v.
  Proof.
    induction p as [|i q IH]; intros t base v0 t' v Hd Ht Hv.
    - cbn in Ht, Hv. injection Ht as <-. injection Hv as <-. now rewrite app_nil_r.
    - cbn [sub_type] in Ht. destruct t as [|w|i0 f0| |l].
      + discriminate.
      + (* a bit of an integer *)
        apply decode_qint in Hd as [Ln ->]. cbn [sub_val] in Hv.
        cbn [ty_size] in Ht. destruct (Nat.ltb_spec i w) as [Hi|]; [|discriminate].
        destruct q as [|j q]; [|discriminate]. cbn in Ht, Hv. injection Ht as <-. injection Hv as <-.
        cbn [arg_names map decode]. do 2 f_equal.
        rewrite bits_val_testbit by (rewrite !map_length, seq_length; exact Hi).
        rewrite map_map.
        rewrite (nth_indep _ false (rbit (base ++ [0%nat]))) by (rewrite map_length, seq_length; exact Hi).
        rewrite (map_nth (fun x => rbit (base ++ [x])) (seq 0 w) 0%nat i), seq_nth by exact Hi. reflexivity.
      + apply decode_qfixed in Hd as [_ ->]. discriminate.
      + apply decode_qchar in Hd as [_ ->]. discriminate.
      + rewrite decode_tuple in Hd. apply option_map_some in Hd as (vs & Hd & ->).
        destruct (nth_error l i) as [ti|] eqn:Ei; [|discriminate].
        cbn [sub_val] in Hv. destruct (nth_error vs i) as [vi|] eqn:Ev; [|discriminate].
        rewrite arg_names_tuple in Hd.
        pose proof (decode_names_elt base l 0 vs i ti vi Hd Ei Ev) as He. cbn [Nat.add] in He.
        replace (base ++ i :: q) with ((base ++ [i]) ++ q) by (now rewrite <- app_assoc).
        eapply IH; eassumption.
  Qed.

  Definition env_ok (G : env) (V : venv) : Prop :=
    forall x t bv, lookup G x = Some (t, bv) ->
      exists v, lookup V x = Some v /\ decode t (map rbit bv) = Some v.
  Definition env_canon (G : env) : Prop :=
    forall x t bv, lookup G x = Some (t, bv) -> bv = arg_names [x] t.

  Lemma trans_name_sound G V x r v : env_ok G V ->
    trans_exp num G (EName x) = Some r -> lookup V x = Some v -> sem rho r v.
  Proof.
    intros Hok Ht Hv. cbn [trans_exp] in Ht. destruct (lookup G x) as [[t bv]|] eqn:E; [|discriminate].
    destruct (Hok _ _ _ E) as (v' & Hv' & Hd). rewrite Hv in Hv'. injection Hv' as <-.
    apply option_map_some in Ht as (tr & Hx & ->). unfold sem, den. cbn [fst snd].
    assert (F : map (beval rho) (flat tr) = map rbit bv); [|now rewrite F].
    unfold to_exp in Hx. destruct bv as [|s [|s' bv]]; [discriminate| |]; injection Hx as <-.
    - reflexivity.
    - rewrite <- (map_beval_sym (s :: s' :: bv)), <- (flat_syms (s :: s' :: bv)). reflexivity.
  Qed.

  Lemma trans_sub_sound G V x p r v0 v : env_ok G V -> env_canon G ->
    trans_sub num G x p = Some r -> lookup V x = Some v0 -> sub_val v0 p = Some v -> sem rho r v.
  Proof.
    intros Hok Hcan Ht Hv0 Hv. unfold trans_sub in Ht.
    destruct p as [|i q]; [discriminate|]. set (p := i :: q) in *.
    destruct (lookup G x) as [[t bv]|] eqn:E; [|discriminate].
    destruct (Hok _ _ _ E) as (v' & Hv' & Hd). rewrite Hv0 in Hv'. injection Hv' as <-.
    rewrite (Hcan _ _ _ E) in Hd.
    apply obind_some in Ht as (t' & Hty & Ht).
    pose proof (sub_walk p t [x] v0 t' v Hd Hty Hv) as Hw. change ([x] ++ p) with (x :: p) in Hw.
    assert (Hr : forall T, T = t' -> T <> TBool ->
              r = (T, Nd (map (fun s => L (sym num s)) (arg_names (x :: p) T)))).
    { intros T -> N1. destruct t' as [|w|i0 f0| |l]; try congruence; now injection Ht as <-. }
    unfold sem, den. destruct t' as [|w|i0 f0| |l].
    - injection Ht as <-. exact Hw.
    - rewrite (Hr _ eq_refl) by discriminate. cbn [fst snd]. rewrite flat_syms, map_beval_sym. exact Hw.
    - rewrite (Hr _ eq_refl) by discriminate. cbn [fst snd]. rewrite flat_syms, map_beval_sym. exact Hw.
    - rewrite (Hr _ eq_refl) by discriminate. cbn [fst snd]. rewrite flat_syms, map_beval_sym. exact Hw.
    - rewrite (Hr _ eq_refl) by discriminate. cbn [fst snd]. rewrite flat_syms, map_beval_sym. exact Hw.
  Qed.

  (* ---- Tuple ---- *)
  Lemma tuple_sound rs vs : Forall2 (sem rho) rs vs ->
    sem rho (TTuple (map fst rs), Nd (map snd rs)) (VT vs).
  Proof.
    intros H. unfold sem, den. cbn [fst snd flat]. rewrite decode_tuple.
    assert (G : decode_list (map fst rs) (map (beval rho) (flat_map flat (map snd rs))) = Some vs); [|now rewrite G].
    induction H as [|r v rs vs Hs _ IH]; [reflexivity|].
    cbn [map flat_map decode_list]. rewrite map_app.
    destruct (decode_type _ _ _ Hs) as [_ Ln].
    rewrite firstn_app_exact by exact Ln. rewrite skipn_app_exact by exact Ln.
    unfold sem, den in Hs. now rewrite Hs, IH.
  Qed.
End Sound.

(* ================================================================== *)
(* trans_exp_sound                                                     *)
(* ================================================================== *)
Definition trans_list (num : sname -> nat) (G : env) := fix go (l : list pexp) : option (list tres) :=
  match l with
  | [] => Some []
  | x :: r => match trans_exp num G x, go r with Some a, Some b => Some (a :: b) | _, _ => None end
  end.
Definition eval_list (V : venv) := fix go (l : list pexp) : option (list value) :=
  match l with
  | [] => Some []
  | x :: r => match eval_exp V x, go r with Some a, Some b => Some (a :: b) | _, _ => None end
  end.

Lemma const_elts_sound rho : forall l es vs,
  trans_const_elts l = Some es -> eval_const_elts l = Some vs ->
  Forall2 (sem rho) (map of_texp es) vs.
Proof.
  induction l as [|c l IH]; intros es vs Ht He; cbn [trans_const_elts eval_const_elts] in Ht, He.
  - injection Ht as <-. injection He as <-. constructor.
  - destruct c as [b|z|neg x|cs|]; try discriminate.
    + destruct (z <? 0)%Z eqn:Z; [discriminate|].
      destruct (const_to_qtype (CInt z)) as [te|] eqn:Ec; [|discriminate].
      destruct (trans_const_elts l) as [es'|] eqn:El; [|discriminate]. injection Ht as <-.
      destruct (eval_const (CInt z)) as [v|] eqn:Ev; [|discriminate].
      destruct (eval_const_elts l) as [vs'|] eqn:El'; [|discriminate]. injection He as <-.
      cbn [map]. constructor; [|now apply IH]. eapply const_to_qtype_sound; try eassumption. discriminate.
    + destruct (const_to_qtype (CFloat neg x)) as [te|] eqn:Ec; [|discriminate].
      destruct (trans_const_elts l) as [es'|] eqn:El; [|discriminate]. injection Ht as <-.
      destruct (eval_const (CFloat neg x)) as [v|] eqn:Ev; [|discriminate].
      destruct (eval_const_elts l) as [vs'|] eqn:El'; [|discriminate]. injection He as <-.
      cbn [map]. constructor; [|now apply IH]. eapply const_to_qtype_sound; try eassumption. discriminate.
    + destruct (const_to_qtype (CStr cs)) as [te|] eqn:Ec; [|discriminate].
      destruct (trans_const_elts l) as [es'|] eqn:El; [|discriminate]. injection Ht as <-.
      destruct (eval_const (CStr cs)) as [v|] eqn:Ev; [|discriminate].
      destruct (eval_const_elts l) as [vs'|] eqn:El'; [|discriminate]. injection He as <-.
      cbn [map]. constructor; [|now apply IH]. eapply const_to_qtype_sound; try eassumption. discriminate.
Qed.

Section Main.
  Variable num : sname -> nat.
  Variable rho : nat -> bool.
  Variables (G : env) (V : venv).
  Hypothesis Hok : env_ok num rho G V.
  Hypothesis Hcan : env_canon G.

  Definition sound_at (e : pexp) : Prop :=
    forall r v, trans_exp num G e = Some r -> eval_exp V e = Some v -> sem rho r v.

  Lemma trans_list_sound l : Forall sound_at l ->
    forall rs vs, trans_list num G l = Some rs -> eval_list V l = Some vs -> Forall2 (sem rho) rs vs.
  Proof.
    induction 1 as [|e l He _ IH]; intros rs vs Ht Hv; cbn [trans_list eval_list] in Ht, Hv.
    - injection Ht as <-. injection Hv as <-. constructor.
    -       destruct (trans_exp num G e) as [a|] eqn:Ea; [|discriminate].
      destruct (trans_list num G l) as [b|] eqn:Eb; [|discriminate]. injection Ht as <-.
      destruct (eval_exp V e) as [va|] eqn:Eva; [|discriminate].
      destruct (eval_list V l) as [vb|] eqn:Evb; [|discriminate]. injection Hv as <-.
      constructor; [now apply He|now apply IH].
  Qed.

  Theorem trans_exp_sound_at : forall e, sound_at e.
  Proof.
    induction e as [x|x p|op l IH|op a IHa|c t f IHc IHt IHf|c|l|l IH|op a b IHa IHb|op a b IHa IHb|t c|a IHa|a IHa|]
      using pexp_ind2; intros r v Ht Hv.
    - cbn [eval_exp] in Hv. eapply trans_name_sound; eassumption.
    - cbn [eval_exp] in Hv. cbn [trans_exp] in Ht.
      destruct p as [|i q]; [discriminate|]. apply obind_some in Hv as (v0 & Hv0 & Hv).
      eapply trans_sub_sound; eassumption.
    - change (trans_exp num G (EBoolOp op l)) with (obind (trans_list num G l) (trans_boolop op)) in Ht.
      change (eval_exp V (EBoolOp op l)) with (obind (eval_list V l) (eval_boolop op)) in Hv.
      apply obind_some in Ht as (rs & Hrs & Ht). apply obind_some in Hv as (vs & Hvs & Hv).
      eapply trans_boolop_sound; try eassumption.
      eapply trans_list_sound; eassumption.
    - cbn [trans_exp] in Ht. cbn [eval_exp] in Hv. 
      apply obind_some in Ht as (ra & Hra & Ht). apply obind_some in Hv as (va & Hva & Hv).
      eapply trans_un_sound; try eassumption. now apply IHa.
    - cbn [trans_exp] in Ht. cbn [eval_exp] in Hv.
      apply obind_some in Ht as (rc & Hrc & Ht). apply obind_some in Ht as (rt & Hrt & Ht).
      apply obind_some in Ht as (rf & Hrf & Ht).
      apply obind_some in Hv as (vc & Hvc & Hv). apply obind_some in Hv as (vt & Hvt & Hv).
      apply obind_some in Hv as (vf & Hvf & Hv).
      eapply trans_if_sound; try eassumption; [now apply IHc|now apply IHt|now apply IHf].
    - cbn [trans_exp] in Ht. cbn [eval_exp] in Hv. eapply trans_const_sound; eassumption.
    - cbn [trans_exp] in Ht. cbn [eval_exp] in Hv. unfold trans_const_tup in Ht.
      apply option_map_some in Ht as (es & Hes & ->). apply option_map_some in Hv as (vs & Hvs & ->).
      pose proof (tuple_sound rho _ _ (const_elts_sound rho _ _ _ Hes Hvs)) as H.
      rewrite !map_map in H. exact H.
    - change (trans_exp num G (ETuple l)) with
        (option_map (fun rs => (TTuple (map fst rs), Nd (map snd rs))) (trans_list num G l)) in Ht.
      change (eval_exp V (ETuple l)) with (option_map VT (eval_list V l)) in Hv.
      apply option_map_some in Ht as (rs & Hrs & ->). apply option_map_some in Hv as (vs & Hvs & ->).
      apply tuple_sound. eapply trans_list_sound; eassumption.
    - cbn [trans_exp] in Ht. cbn [eval_exp] in Hv.
      apply obind_some in Ht as (ra & Hra & Ht). apply obind_some in Ht as (rb & Hrb & Ht).
      apply obind_some in Hv as (va & Hva & Hv). apply obind_some in Hv as (vb & Hvb & Hv).
      eapply trans_cmp_sound; try eassumption; [now apply IHa|now apply IHb].
    - cbn [trans_exp] in Ht. cbn [eval_exp] in Hv.
      apply obind_some in Ht as (ra & Hra & Ht). apply obind_some in Ht as (rb & Hrb & Ht).
      apply obind_some in Hv as (va & Hva & Hv). apply obind_some in Hv as (vb & Hvb & Hv).
      eapply trans_bin_sound; try eassumption; [now apply IHa|now apply IHb].
    - cbn [trans_exp] in Ht. cbn [eval_exp] in Hv. apply lift_some in Ht as (te & Ht & ->).
      eapply cast_const_sound; eassumption.
    - cbn [trans_exp] in Ht. cbn [eval_exp] in Hv. 
      apply obind_some in Ht as (ra & Hra & Ht). apply obind_some in Hv as (va & Hva & Hv).
      eapply trans_int_sound; try eassumption. now apply IHa.
    - cbn [trans_exp] in Ht. cbn [eval_exp] in Hv. 
      apply obind_some in Ht as (ra & Hra & Ht). apply obind_some in Hv as (va & Hva & Hv).
      eapply trans_float_sound; try eassumption. now apply IHa.
    - discriminate.
  Qed.
End Main.

(* every expression of the language, every environment, every assignment *)
Theorem trans_exp_sound num rho G V e r v :
  env_ok num rho G V -> env_canon G ->
  trans_exp num G e = Some r -> eval_exp V e = Some v -> den rho r = Some v.
Proof. intros Hok Hcan Ht Hv. exact (trans_exp_sound_at num rho G V Hok Hcan e r v Ht Hv). Qed.

(* ================================================================== *)
(* statements                                                          *)
(* ================================================================== *)
Section vtree_ind2.
  Variable P : vtree -> Prop.
  Hypotheses (Hl : forall e, P (L e)) (Hn : forall l, Forall P l -> P (Nd l)).
  Fixpoint vtree_ind2 (v : vtree) : P v :=
    match v with
    | L e => Hl e
    | Nd l => Hn l ((fix go (l : list vtree) : Forall P l :=
                       match l with [] => Forall_nil _ | x :: r => Forall_cons x (vtree_ind2 x) (go r) end) l)
    end.
End vtree_ind2.

Definition decompose_go (base : sname) := fix go (l : list vtree) (k : nat) : list (sname * bexp) :=
  match l with
  | [] => []
  | x :: r => decompose (base ++ [k]) x ++ go r (S k)
  end.
Lemma decompose_nd base l : decompose base (Nd l) = decompose_go base l 0.
Proof. reflexivity. Qed.

Lemma decompose_snd : forall v base, map snd (decompose base v) = flat v.
Proof.
  induction v as [e|l IH] using vtree_ind2; intros base; [reflexivity|].
  rewrite decompose_nd. cbn [flat]. generalize 0%nat.
  induction IH as [|x l Hx _ IHl]; intros k; cbn [decompose_go flat_map]; [reflexivity|].
  now rewrite map_app, Hx, IHl.
Qed.

Definition regroup_go := fix go (l : list ty) (bits : list bexp) : list vtree :=
  match l with
  | [] => []
  | a :: r => regroup a (firstn (ty_size a) bits) :: go r (skipn (ty_size a) bits)
  end.
Lemma regroup_tuple l bits : regroup (TTuple l) bits = Nd (regroup_go l bits).
Proof. reflexivity. Qed.

Lemma regroup_flat : forall t bits, length bits = ty_size t -> flat (regroup t bits) = bits.
Proof.
  induction t as [|w|i f| |l IH] using ty_ind2; intros bits Hl; try apply flat_of_list.
  - destruct bits as [|b [|]]; try discriminate. reflexivity.
  - rewrite regroup_tuple. cbn [flat]. cbn [ty_size] in Hl. revert bits Hl.
    induction IH as [|x l Hx _ IHl]; intros bits Hl; cbn [regroup_go flat_map map] in *.
    + now apply length_zero_iff_nil in Hl.
    + change (list_sum (ty_size x :: map ty_size l)) with (ty_size x + list_sum (map ty_size l))%nat in Hl.
      rewrite Hx by (rewrite firstn_length; lia). rewrite IHl by (rewrite skipn_length; lia).
      apply firstn_skipn.
Qed.

Lemma regroup_value_type r : fst (regroup_value r) = fst r.
Proof.
  unfold regroup_value. destruct r as [t tr]. cbn [fst snd].
  destruct t as [| | | |[|a l]]; try reflexivity.
  now destruct (Nat.eqb _ _).
Qed.

Lemma regroup_value_sem rho r v : sem rho r v -> sem rho (regroup_value r) v.
Proof.
  intros H. unfold regroup_value. destruct r as [t tr]. cbn [fst snd].
  destruct t as [| | | |[|a l]]; try exact H.
  unfold sem, den in *. cbn [fst snd] in *.
  destruct (Nat.eqb_spec (ty_size (TTuple (a :: l))) (length (flat tr))) as [Ln|Ln]; cbn [fst snd].
  - now rewrite regroup_flat by congruence.
  - now rewrite flat_of_list.
Qed.

(* ---- the names decompose_to_symbols gives ---- *)
Lemma decompose_go_leaves base l : forall k,
  map fst (decompose_go base (map L l) k) = map (fun i => base ++ [i]) (seq k (length l)).
Proof.
  induction l as [|e l IH]; intros k; cbn [map decompose_go decompose app length seq]; [reflexivity|].
  now rewrite IH.
Qed.

Lemma decompose_of_list base l : map fst (decompose base (of_list l)) = bit_names base (length l).
Proof. unfold of_list. rewrite decompose_nd. apply decompose_go_leaves. Qed.

Lemma decompose_regroup : forall t base bits, length bits = ty_size t ->
  map fst (decompose base (regroup t bits)) = arg_names base t.
Proof.
  induction t as [|w|i f| |l IH] using ty_ind2; intros base bits Hl;
    try (cbn [regroup arg_names]; rewrite decompose_of_list; now rewrite Hl).
  - destruct bits as [|b [|]]; try discriminate. reflexivity.
  - rewrite regroup_tuple, decompose_nd, arg_names_tuple. cbn [ty_size] in Hl. generalize 0%nat. revert bits Hl.
    induction IH as [|x l Hx _ IHl]; intros bits Hl k; cbn [regroup_go decompose_go names_go map] in *; [reflexivity|].
    change (list_sum (ty_size x :: map ty_size l)) with (ty_size x + list_sum (map ty_size l))%nat in Hl.
    rewrite map_app, Hx by (rewrite firstn_length; lia). f_equal. apply IHl. rewrite skipn_length. lia.
Qed.

(* ---- the shape of a translated value ---- *)
(* a bool is a bare expression, a sized value a flat list (what decompose_to_symbols names
   as translate_argument does) *)
Definition wf_res (r : tres) : Prop :=
  match fst r with
  | TBool => exists e, snd r = L e
  | TTuple _ => True
  | _ => exists l, snd r = of_list l
  end.

Lemma wf_bool e : wf_res (TBool, L e).
Proof. now exists e. Qed.

Lemma wf_of_texp te : is_qtype (fst te) = true -> wf_res (of_texp te).
Proof. unfold wf_res, of_texp. cbn [fst snd]. destruct (fst te); try discriminate; intros _; now eexists. Qed.

Lemma wf_syms num T names : T <> TBool -> wf_res (T, Nd (map (fun s => L (sym num s)) names)).
Proof.
  intros N. unfold wf_res. cbn [fst snd].
  assert (E : Nd (map (fun s => L (sym num s)) names) = of_list (map (sym num) names))
    by (unfold of_list; now rewrite map_map).
  destruct T; try exact I; try (eexists; exact E). congruence.
Qed.

Lemma zip_ite_leaves c : forall lt lf r, zip_ite c lt lf = Some r -> exists l, r = map L l.
Proof.
  induction lt as [|t lt IH]; intros [|f lf] r H; cbn [zip_ite] in H; try (injection H as <-; now exists []).
  destruct (leaf t); [|discriminate]. destruct (leaf f); [|discriminate].
  destruct (zip_ite c lt lf) as [r'|] eqn:E; [|discriminate]. injection H as <-.
  destruct (IH _ _ E) as (l & ->). now exists (BIte c b b0 :: l).
Qed.

Lemma trans_boolop_wf op rs r : trans_boolop op rs = Some r -> wf_res r.
Proof.
  unfold trans_boolop. destruct (all_bool rs); [|discriminate]. intros H.
  apply obind_some in H as (es & _ & H). apply option_map_some in H as (e & _ & ->). apply wf_bool.
Qed.

Lemma trans_un_wf op r0 r : trans_un op r0 = Some r -> wf_res r.
Proof.
  destruct op; cbn [trans_un]; [| |discriminate].
  - destruct (fst r0); try discriminate. intros H. apply option_map_some in H as (e & _ & ->). apply wf_bool.
  - destruct (is_qtype (fst r0)) eqn:Q; [|discriminate]. intros H. apply lift_some in H as (te' & H & ->).
    apply option_map_some in H as (te & H & ->). apply wf_of_texp.
    destruct (to_texp_some _ _ H) as [T _]. cbn [bitwise_not fst]. now rewrite T.
Qed.

Lemma trans_if_wf c t f r : trans_if c t f = Some r -> wf_res r.
Proof.
  unfold trans_if. destruct (fst c); try discriminate. intros H.
  apply obind_some in H as (cb & _ & H). apply obind_some in H as ([t' f'] & _ & H).
  destruct (fst t') eqn:T.
  - apply obind_some in H as (a & _ & H). apply obind_some in H as (b & _ & H). injection H as <-. apply wf_bool.
  - destruct (snd t'), (snd f'); try discriminate. apply option_map_some in H as (r0 & Hz & ->).
    destruct (zip_ite_leaves _ _ _ _ Hz) as (lz & ->). unfold wf_res. cbn [fst snd]. now exists lz.
  - destruct (snd t'), (snd f'); try discriminate. apply option_map_some in H as (r0 & Hz & ->).
    destruct (zip_ite_leaves _ _ _ _ Hz) as (lz & ->). unfold wf_res. cbn [fst snd]. now exists lz.
  - destruct (snd t'), (snd f'); try discriminate. apply option_map_some in H as (r0 & Hz & ->).
    destruct (zip_ite_leaves _ _ _ _ Hz) as (lz & ->). unfold wf_res. cbn [fst snd]. now exists lz.
  - destruct (snd t'), (snd f'); try discriminate. apply option_map_some in H as (r0 & Hz & ->). exact I.
Qed.

Lemma const_to_qtype_q c te : const_to_qtype c = Some te -> is_qtype (fst te) = true.
Proof.
  destruct c as [b|z|neg x|cs|]; cbn [const_to_qtype]; try discriminate.
  - unfold const_int. destruct (const_to_qtype_int _) as [[w bits]|]; [|discriminate]. now intros [= <-].
  - destruct (z <? 0)%Z; [discriminate|]. unfold const_int.
    destruct (const_to_qtype_int _) as [[w bits]|]; [|discriminate]. now intros [= <-].
  - destruct neg; [discriminate|]. unfold const_float.
    destruct (const_float_search _ _) as [[[i f] bits]|]; [|discriminate]. now intros [= <-].
  - unfold const_char. destruct cs as [|c [|]]; try discriminate. destruct (c <? 256); [|discriminate]. now intros [= <-].
Qed.

Lemma trans_const_wf c r : trans_const c = Some r -> wf_res r.
Proof.
  destruct c as [b|z|neg x|cs|]; cbn [trans_const].
  - intros [= <-]. apply wf_bool.
  - destruct (z <? 0)%Z; [discriminate|]. intros H. apply lift_some in H as (te & H & ->).
    apply wf_of_texp. now apply const_to_qtype_q in H.
  - destruct neg; [discriminate|]. intros H. apply lift_some in H as (te & H & ->).
    apply wf_of_texp. now apply const_to_qtype_q in H.
  - intros H. apply lift_some in H as (te & H & ->). apply wf_of_texp. now apply const_to_qtype_q in H.
  - discriminate.
Qed.

Lemma cast_const_q t c te : cast_const t c = Some te -> is_qtype (fst te) = true.
Proof.
  unfold cast_const. destruct (known_type t); cbn [negb]; [|discriminate].
  destruct t as [|w|i f| |l]; try discriminate; destruct c as [b|z|neg x|cs|]; try discriminate;
    try (now intros [= <-]).
  - destruct (z <? 0)%Z; [discriminate|]. now intros [= <-].
  - destruct neg; [discriminate|]. now intros [= <-].
  - unfold const_char. destruct cs as [|c [|]]; try discriminate. destruct (c <? 256); [|discriminate]. now intros [= <-].
Qed.

Lemma trans_cmp_leaf op l r res : trans_cmp op l r = Some res -> exists e, snd res = L e.
Proof.
  unfold trans_cmp. intros H.
  assert (D : forall o : option tres, o = Some res ->
            (forall x, o = Some x -> exists e, snd x = L e) -> exists e, snd res = L e) by (intros o E F; now apply F).
  destruct (fst l) as [|wl|il fl| |[|a0 al]] eqn:Tl; destruct (fst r) as [|wr|ir fr| |[|b0 bl]] eqn:Tr;
    try discriminate;
    try (destruct (_ && _); [|discriminate];
         apply obind_some in H as (o & _ & H); apply obind_some in H as (lt & _ & H);
         apply obind_some in H as (rt & _ & H); apply obind_some in H as (r0 & _ & H);
         destruct (snd r0) as [|e [|]]; try discriminate; injection H as <-; now exists e).
  - apply obind_some in H as (a & _ & H). apply obind_some in H as (b & _ & H).
    destruct op; try discriminate; injection H as <-; now eexists.
  - destruct (negb _); [discriminate|].
    destruct op; try discriminate; apply obind_some in H as (lb & _ & H); apply obind_some in H as (rb & _ & H);
      apply obind_some in H as (c & _ & H); injection H as <-; now eexists.
Qed.

Lemma eval_cmp_vb op a b v : eval_cmp op a b = Some v -> exists x, v = VB x.
Proof.
  destruct a, b; cbn [eval_cmp]; try discriminate.
  - destruct op; try discriminate; intros [= <-]; now eexists.
  - intros H. apply option_map_some in H as (c & _ & ->). now eexists.
  - destruct (fix_align _ _ _ _) as [[ia fa]|]; [|discriminate]. destruct (_ <? _)%nat; [|discriminate].
    intros H. apply option_map_some in H as (c & _ & ->). now eexists.
  - destruct op; try discriminate; intros H; apply option_map_some in H as (cc & _ & ->); now eexists.
  - destruct (_ && _); [|discriminate]. destruct op; try discriminate; intros [= <-]; now eexists.
Qed.

(* the BinOp result is a bare bool expression, or a flat list built by a type method *)
Lemma trans_bin_form op sh l r res : trans_bin op sh l r = Some res ->
  (exists e, res = (TBool, L e)) \/ (exists te, res = of_texp te /\ ~ (fst l = TBool /\ fst r = TBool)).
Proof.
  unfold trans_bin. intros H.
  destruct (is_bool (fst l) && is_bool (fst r)) eqn:B.
  - left. destruct op; try (apply obind_some in H as (a & _ & H); apply obind_some in H as (b & _ & H);
                            injection H as <-; now eexists).
    all: apply andb_true_iff in B as [B1 B2]; destruct (fst l); try discriminate; destruct (fst r); try discriminate.
  - right.
    assert (NB : ~ (fst l = TBool /\ fst r = TBool)) by (intros [E1 E2]; rewrite E1, E2 in B; discriminate).
    destruct ((is_qint (fst l) && is_qfixed (fst r)) || (is_qfixed (fst l) && is_qint (fst r))).
    + destruct op; try discriminate. apply obind_some in H as (lt & _ & H). apply obind_some in H as (rt & _ & H).
      apply lift_some in H as (r0 & _ & ->). now exists r0.
    + destruct (is_qtype (fst l)); [|discriminate]. apply obind_some in H as (lt & _ & H).
      destruct op; try discriminate;
        try (apply obind_some in H as (rt & _ & H); apply lift_some in H as (r0 & _ & ->); now exists r0);
        destruct sh as [[k|]|]; try discriminate; apply lift_some in H as (r0 & _ & ->); now exists r0.
Qed.

Lemma eval_bin_kind op sh a b v : eval_bin op sh a b = Some v ->
  (exists x, v = VB x /\ exists p q, a = VB p /\ b = VB q) \/ is_qtype (type_of v) = true.
Proof.
  destruct a as [p|wl x|i1 f1 x| |], b as [q|wr y|i2 f2 y| |]; cbn [eval_bin]; try discriminate.
  - intros H. left. destruct op; try discriminate; injection H as <-; eexists; (split; [reflexivity|]); now exists p, q.
  - intros H. right. destruct op; try discriminate; try (injection H as <-; reflexivity).
    + destruct (_ && _); [|discriminate]. now injection H as <-.
    + destruct (_ && _); [|discriminate]. now injection H as <-.
    + destruct sh as [[k|]|]; try discriminate. now injection H as <-.
    + destruct sh as [[k|]|]; try discriminate. now injection H as <-.
  - intros H. right. destruct op; try discriminate. now injection H as <-.
  - intros H. right. destruct op; try discriminate. now injection H as <-.
  - intros H. right. destruct (fix_align _ _ _ _) as [[i f]|]; [|discriminate].
    destruct op; try discriminate; now injection H as <-.
Qed.

Lemma trans_int_wf r0 r : wf_res r0 -> trans_int r0 = Some r -> wf_res r.
Proof.
  intros W. unfold trans_int. destruct (fst r0) eqn:T; try discriminate.
  - now intros [= <-].
  - intros H. apply obind_some in H as (l & _ & H). destruct (existsb _ _); [|discriminate]. injection H as <-.
    unfold wf_res. cbn [fst snd]. now eexists.
Qed.

Lemma trans_float_wf r0 r : wf_res r0 -> trans_float r0 = Some r -> wf_res r.
Proof.
  intros W. unfold trans_float. destruct (fst r0) eqn:T; try discriminate.
  - intros H. apply obind_some in H as (l & _ & H). apply obind_some in H as (tf & Htf & H). injection H as <-.
    destruct (qfixed_for_size_spec _ _ Htf) as (f & ->). apply wf_of_texp. rewrite fill_type. cbn [fst snd].
    now destruct (_ <=? _)%nat.
  - now intros [= <-].
Qed.

Lemma ret_coerce_wf rt r0 r : wf_res r0 -> ret_coerce rt r0 = Some r -> wf_res r.
Proof.
  intros W. unfold ret_coerce.
  destruct (is_qtype (fst r0) && is_qtype rt && (bit_size (fst r0) <? bit_size rt)%nat) eqn:C1.
  - intros H. apply option_map_some in H as (te & Hte & ->). apply wf_of_texp.
    apply andb_true_iff in C1 as [C1 _]. apply andb_true_iff in C1 as [Q1 Q2].
    destruct (to_texp_some _ _ Hte) as [T _]. rewrite fill_type. destruct (_ <=? _)%nat; [now rewrite T|exact Q2].
  - destruct (is_qtype (fst r0) && is_qtype rt && (bit_size rt <? bit_size (fst r0))%nat) eqn:C2.
    + intros H. apply option_map_some in H as (te & Hte & ->). apply wf_of_texp.
      apply andb_true_iff in C2 as [C2 _]. apply andb_true_iff in C2 as [Q1 Q2].
      destruct (to_texp_some _ _ Hte) as [T _]. rewrite crop_type. destruct (_ <=? _)%nat; [now rewrite T|exact Q2].
    + destruct (ty_eq (fst r0) rt); [|discriminate]. now intros [= <-].
Qed.

(* the Return coercion *)
Lemma ret_coerce_sound rho rt r v r' v' :
  sem rho r v -> ret_coerce rt r = Some r' -> coerce_ret rt v = Some v' -> sem rho r' v' /\ fst r' = rt.
Proof.
  intros Hs Ht Hv. pose proof (sem_type _ _ _ Hs) as T. unfold ret_coerce in Ht.
  assert (Same : ty_eq (type_of v) rt = true -> v' = v -> sem rho r' v' /\ fst r' = rt).
  { intros E ->. apply ty_eq_true in E. rewrite T in E. rewrite E in Ht.
    rewrite Nat.ltb_irrefl, !andb_false_r in Ht. rewrite ty_eq_refl in Ht. injection Ht as <-. now split. }
  destruct v as [b|w n|i f n|c|l]; destruct rt as [|r0|i0 f0| |l0]; cbn [coerce_ret] in Hv;
    try (destruct (ty_eq _ _) eqn:E in Hv; [injection Hv as <-; now apply Same|discriminate]).
  cbn [type_of] in T. symmetry in T. rewrite T in Ht. unfold bit_size in Ht. cbn [is_qtype andb ty_size] in Ht.
  destruct (Nat.ltb_spec w r0) as [W|W].
  - injection Hv as <-. apply option_map_some in Ht as (te & Hte & ->).
    destruct (sem_qint _ _ _ _ _ Hte T Hs) as [[G1 G2] E]. injection E as ->.
    assert (Ty : fst (fill (TQint r0) te) = TQint r0).
    { rewrite fill_type. unfold bit_size. cbn [ty_size]. destruct (Nat.leb_spec r0 (length (snd te))); [lia|reflexivity]. }
    split; [|exact Ty]. apply sem_qint_out; [exact Ty| |apply fill_bv].
    rewrite fill_length. unfold bit_size. cbn [ty_size]. lia.
  - destruct (Nat.ltb_spec r0 w) as [W'|W'].
    + injection Hv as <-. apply option_map_some in Ht as (te & Hte & ->).
      destruct (sem_qint _ _ _ _ _ Hte T Hs) as [[G1 G2] E]. injection E as ->.
      assert (Ty : fst (crop (TQint r0) te) = TQint r0).
      { rewrite crop_type. unfold bit_size. cbn [ty_size]. destruct (Nat.leb_spec (length (snd te)) r0); [lia|reflexivity]. }
      split; [|exact Ty]. apply sem_qint_out; [exact Ty| |].
      * rewrite crop_length. unfold bit_size. cbn [ty_size]. lia.
      * rewrite crop_bv. reflexivity.
    + assert (w = r0) by lia. subst r0. apply Same; [cbn [type_of ty_eq]; apply Nat.eqb_refl|now injection Hv].
Qed.

(* ---- sequential evaluation of a definition list ---- *)
Lemma run_defs_seq : forall ds rho, seq_ok ds = true -> nodupb (map fst ds) = true ->
  (forall j, ~ In j (map fst ds) -> run_defs rho ds j = rho j)
  /\ Forall (fun d => run_defs rho ds (fst d) = beval rho (snd d)) ds.
Proof.
  induction ds as [|[s e] ds IH]; intros rho Hs Hn; [split; [reflexivity|constructor]|].
  cbn [seq_ok] in Hs. apply andb_true_iff in Hs as [Hs1 Hs2].
  cbn [map nodupb fst] in Hn. apply andb_true_iff in Hn as [Hn1 Hn2].
  rewrite run_defs_cons. set (rho1 := fun j => if Nat.eqb j s then beval rho e else rho j).
  destruct (IH rho1 Hs2 Hn2) as [A B].
  assert (Hns : ~ In s (map fst ds)).
  { intros Hin. apply negb_true_iff in Hn1. assert (existsb (Nat.eqb s) (map fst ds) = true); [|congruence].
    apply existsb_exists. exists s. split; [exact Hin|apply Nat.eqb_refl]. }
  split.
  - intros j Hj. cbn [map fst In] in Hj. rewrite A by tauto. unfold rho1.
    destruct (Nat.eqb_spec j s); [subst; tauto|reflexivity].
  - constructor.
    + cbn [fst snd]. rewrite A by exact Hns. unfold rho1. now rewrite Nat.eqb_refl.
    + rewrite Forall_forall in B |- *. intros d Hd. rewrite (B d Hd).
      rewrite forallb_forall in Hs1. specialize (Hs1 d Hd). apply negb_true_iff in Hs1.
      unfold beval. apply (geval_ext bool_alg). intros i Hi. unfold rho1.
      destruct (Nat.eqb_spec i s) as [->|]; [|reflexivity].
      assert (existsb (Nat.eqb s) (bsyms (snd d)) = true); [|congruence].
      apply existsb_exists. exists s. split; [exact Hi|apply Nat.eqb_refl].
Qed.

Lemma lookup_bind {A} (G : list (ident * A)) x b y :
  lookup (bind G x b) y = if Nat.eqb y x then Some b else lookup G y.
Proof.
  unfold bind, unbind. induction G as [|[z c] G IH]; cbn [filter app lookup fst].
  - rewrite (Nat.eqb_sym x y). reflexivity.
  - destruct (Nat.eqb_spec z x) as [Hz|Hz]; cbn [negb].
    + rewrite IH. subst z. destruct (Nat.eqb_spec y x) as [Hy|Hy]; [reflexivity|].
      destruct (Nat.eqb_spec x y); [congruence|reflexivity].
    + cbn [app lookup]. destruct (Nat.eqb_spec z y) as [Hzy|Hzy].
      * subst z. destruct (Nat.eqb_spec y x); [congruence|reflexivity].
      * exact IH.
Qed.

Lemma lookup_in {A} (G : list (ident * A)) x b : lookup G x = Some b -> In (x, b) G.
Proof.
  induction G as [|[z c] G IH]; cbn [lookup]; [discriminate|].
  destruct (Nat.eqb_spec z x) as [->|]; [intros [= ->]; now left|intros H; right; now apply IH].
Qed.

Lemma snames_eqb_true : forall a b, snames_eqb a b = true -> a = b.
Proof.
  assert (S : forall a b, sname_eqb a b = true -> a = b).
  { induction a as [|x a IH]; intros [|y b] H; cbn in H; try discriminate; [reflexivity|].
    apply andb_true_iff in H as [H1 H2]. apply Nat.eqb_eq in H1. f_equal; [exact H1|now apply IH]. }
  induction a as [|x a IH]; intros [|y b] H; cbn in H; try discriminate; [reflexivity|].
  apply andb_true_iff in H as [H1 H2]. f_equal; [now apply S|now apply IH].
Qed.

(* every bound type is ty_good: no sized component of fewer than 2 bits *)
Definition env_good (G : env) : Prop := forall x t bv, lookup G x = Some (t, bv) -> ty_good t = true.

Lemma to_exp_long num bv : (2 <= length bv)%nat ->
  to_exp num bv = Some (Nd (map (fun s => L (sym num s)) bv)).
Proof. destruct bv as [|a [|b r]]; cbn [length]; try lia. reflexivity. Qed.

Section Wf.
  Variable num : sname -> nat.
  Variable rho : nat -> bool.
  Variables (G : env) (V : venv).
  Hypothesis Hok : env_ok num rho G V.
  Hypothesis Hcan : env_canon G.
  Hypothesis Hgood : env_good G.

  (* every translated value that has a meaning is shaped as its type *)
  Theorem trans_exp_wf : forall e r v, trans_exp num G e = Some r -> eval_exp V e = Some v -> wf_res r.
  Proof.
    induction e as [x|x p|op l IH|op a IHa|c t f IHc IHt IHf|c|l|l IH|op a b IHa IHb|op a b IHa IHb|t c|a IHa|a IHa|]
      using pexp_ind2; intros r v Ht Hv.
    - (* Name *)
      cbn [trans_exp] in Ht. destruct (lookup G x) as [[t bv]|] eqn:E; [|discriminate].
      apply option_map_some in Ht as (tr & Hx & ->). pose proof (Hcan _ _ _ E) as ->. pose proof (Hgood _ _ _ E) as Ok.
      destruct t as [|w|i f| |l]; try exact I.
      + cbn in Hx. injection Hx as <-. apply wf_bool.
      + assert (L2 : (2 <= length (arg_names [x] (TQint w)))%nat) by (rewrite arg_names_length; now apply Nat.leb_le in Ok).
        rewrite (to_exp_long num _ L2) in Hx. injection Hx as <-. exact (wf_syms num (TQint w) (arg_names [x] (TQint w)) ltac:(discriminate)).
      + assert (L2 : (2 <= length (arg_names [x] (TQfixed i f)))%nat) by (rewrite arg_names_length; now apply Nat.leb_le in Ok).
        rewrite (to_exp_long num _ L2) in Hx. injection Hx as <-. exact (wf_syms num (TQfixed i f) (arg_names [x] (TQfixed i f)) ltac:(discriminate)).
      + assert (L2 : (2 <= length (arg_names [x] TQchar))%nat) by (rewrite arg_names_length; cbn; lia).
        rewrite (to_exp_long num _ L2) in Hx. injection Hx as <-. exact (wf_syms num TQchar (arg_names [x] TQchar) ltac:(discriminate)).
    - (* Subscript *)
      cbn [trans_exp] in Ht. unfold trans_sub in Ht. destruct p as [|i q]; [discriminate|].
      destruct (lookup G x) as [[t bv]|]; [|discriminate]. apply obind_some in Ht as (t' & _ & Ht).
      set (p := i :: q) in *.
      assert (F : (exists e, r = (TBool, L e)) \/ (exists l e, r = (TTuple l, e))
                  \/ (exists T names, T <> TBool /\ r = (T, Nd (map (fun s => L (sym num s)) names)))).
      { destruct t' as [|w|i0 f0| |[|a l]]; injection Ht as <-.
        - left. now eexists.
        - right. right. exists (TQint w), (arg_names (x :: p) (TQint w)). split; [discriminate|reflexivity].
        - right. right. exists (TQfixed i0 f0), (arg_names (x :: p) (TQfixed i0 f0)). split; [discriminate|reflexivity].
        - right. right. exists TQchar, (arg_names (x :: p) TQchar). split; [discriminate|reflexivity].
        - right. left. now eexists; eexists.
        - right. left. now eexists; eexists. }
      destruct F as [(e & ->)|[(l & e & ->)|(T & names & NB & ->)]]; [apply wf_bool|exact I|now apply wf_syms].
    - change (trans_exp num G (EBoolOp op l)) with (obind (trans_list num G l) (trans_boolop op)) in Ht.
      apply obind_some in Ht as (rs & _ & Ht). now apply trans_boolop_wf in Ht.
    - cbn [trans_exp] in Ht. apply obind_some in Ht as (ra & _ & Ht). now apply trans_un_wf in Ht.
    - cbn [trans_exp] in Ht. apply obind_some in Ht as (rc & _ & Ht). apply obind_some in Ht as (rt & _ & Ht).
      apply obind_some in Ht as (rf & _ & Ht). now apply trans_if_wf in Ht.
    - cbn [trans_exp] in Ht. now apply trans_const_wf in Ht.
    - cbn [trans_exp] in Ht. unfold trans_const_tup in Ht. apply option_map_some in Ht as (es & _ & ->). exact I.
    - change (trans_exp num G (ETuple l)) with
        (option_map (fun rs => (TTuple (map fst rs), Nd (map snd rs))) (trans_list num G l)) in Ht.
      apply option_map_some in Ht as (rs & _ & ->). exact I.
    - (* Compare: the result is a bare expression, and its value is a bool *)
      pose proof (trans_exp_sound num rho G V _ r v Hok Hcan Ht Hv) as Hs.
      cbn [trans_exp] in Ht. cbn [eval_exp] in Hv.
      apply obind_some in Ht as (ra & _ & Ht). apply obind_some in Ht as (rb & _ & Ht).
      apply obind_some in Hv as (va & _ & Hv). apply obind_some in Hv as (vb & _ & Hv).
      destruct (trans_cmp_leaf _ _ _ _ Ht) as (e & He). destruct (eval_cmp_vb _ _ _ _ Hv) as (x & ->).
      apply sem_type in Hs. cbn [type_of] in Hs. unfold wf_res. rewrite <- Hs. now exists e.
    - (* BinOp *)
      pose proof (trans_exp_sound num rho G V _ r v Hok Hcan Ht Hv) as Hs.
      cbn [trans_exp] in Ht. cbn [eval_exp] in Hv.
      apply obind_some in Ht as (ra & Hra & Ht). apply obind_some in Ht as (rb & Hrb & Ht).
      apply obind_some in Hv as (va & Hva & Hv). apply obind_some in Hv as (vb & Hvb & Hv).
      destruct (trans_bin_form _ _ _ _ _ Ht) as [(e & ->)|(te & -> & NB)]; [apply wf_bool|].
      apply wf_of_texp. apply sem_type in Hs. unfold of_texp in Hs. cbn [fst] in Hs. rewrite <- Hs.
      destruct (eval_bin_kind _ _ _ _ _ Hv) as [(x & -> & p & q & -> & ->)|Q]; [|exact Q].
      exfalso. apply NB.
      pose proof (trans_exp_sound num rho G V _ _ _ Hok Hcan Hra Hva) as S1.
      pose proof (trans_exp_sound num rho G V _ _ _ Hok Hcan Hrb Hvb) as S2.
      apply sem_type in S1, S2. cbn [type_of] in S1, S2. now split.
    - cbn [trans_exp] in Ht. apply lift_some in Ht as (te & Ht & ->). apply wf_of_texp. now apply cast_const_q in Ht.
    - cbn [trans_exp] in Ht. cbn [eval_exp] in Hv.
      apply obind_some in Ht as (ra & Hra & Ht). apply obind_some in Hv as (va & Hva & _).
      exact (trans_int_wf _ _ (IHa _ _ Hra Hva) Ht).
    - cbn [trans_exp] in Ht. cbn [eval_exp] in Hv.
      apply obind_some in Ht as (ra & Hra & Ht). apply obind_some in Hv as (va & Hva & _).
      exact (trans_float_wf _ _ (IHa _ _ Hra Hva) Ht).
    - discriminate.
  Qed.
End Wf.

(* a tree without leaves defines nothing *)
Lemma decompose_flat_nil : forall v base, flat v = [] -> decompose base v = [].
Proof.
  induction v as [e|l IH] using vtree_ind2; intros base H; [discriminate|].
  rewrite decompose_nd. cbn [flat] in H. generalize 0%nat.
  induction IH as [|x l Hx _ IHl]; intros k; cbn [decompose_go flat_map] in *; [reflexivity|].
  apply app_eq_nil in H as [H1 H2]. now rewrite (Hx _ H1), (IHl H2).
Qed.

(* after the regrouping, decompose_to_symbols gives the names of the type: NO side condition *)
Lemma regroup_canon rho x r v : sem rho r v -> wf_res r ->
  map fst (decompose [x] (snd (regroup_value r))) = arg_names [x] (fst r).
Proof.
  intros Hs W. destruct (decode_type _ _ _ Hs) as [_ Ln]. rewrite map_length in Ln.
  unfold regroup_value, wf_res in *. destruct r as [t tr]. cbn [fst snd] in *.
  destruct t as [|w|i f| |[|a l]].
  - destruct W as (e & ->). reflexivity.
  - destruct W as (l & ->). rewrite flat_of_list in Ln. cbn [snd]. rewrite decompose_of_list. now rewrite Ln.
  - destruct W as (l & ->). rewrite flat_of_list in Ln. cbn [snd]. rewrite decompose_of_list. now rewrite Ln.
  - destruct W as (l & ->). rewrite flat_of_list in Ln. cbn [snd]. rewrite decompose_of_list. now rewrite Ln.
  - cbn [snd]. change (ty_size (TTuple [])) with 0%nat in Ln. apply length_zero_iff_nil in Ln.
    now rewrite (decompose_flat_nil _ _ Ln).
  - rewrite Ln, Nat.eqb_refl. cbn [snd]. now apply decompose_regroup.
Qed.

(* ================================================================== *)
(* the types of the values: no one-bit sized value, no empty tuple     *)
(* ================================================================== *)
Definition vgood (v : value) : Prop := ty_good (type_of v) = true.

Theorem shipped_qint_ge2 : forallb (fun w => 2 <=? w)%nat shipped_qint = true.
Proof. vm_compute. reflexivity. Qed.
Theorem shipped_qfixed_ge2 : forallb (fun t => 2 <=? fst t + snd t)%nat shipped_qfixed = true.
Proof. vm_compute. reflexivity. Qed.

Lemma shipped_qint_in w : existsb (Nat.eqb w) shipped_qint = true -> (2 <= w)%nat.
Proof.
  intros H. apply existsb_exists in H as (w' & Hin & E). apply Nat.eqb_eq in E. subst w'.
  pose proof shipped_qint_ge2 as P. rewrite forallb_forall in P. specialize (P _ Hin). now apply Nat.leb_le.
Qed.
Lemma shipped_qfixed_in i f : In (i, f) shipped_qfixed -> (2 <= i + f)%nat.
Proof.
  intros Hin. pose proof shipped_qfixed_ge2 as P. rewrite forallb_forall in P. specialize (P _ Hin).
  now apply Nat.leb_le in P.
Qed.
Lemma is_shipped_in i f : is_shipped_qfixed i f = true -> (2 <= i + f)%nat.
Proof.
  unfold is_shipped_qfixed. intros H. apply existsb_exists in H as ([i' f'] & Hin & E). cbn [fst snd] in E.
  apply andb_true_iff in E as [E1 E2]. apply Nat.eqb_eq in E1, E2. subst. now apply shipped_qfixed_in.
Qed.

Lemma const_float_search_in ts x i f bits : const_float_search ts x = Some (i, f, bits) -> In (i, f) ts.
Proof.
  induction ts as [|[i0 f0] ts IH]; cbn [const_float_search]; [discriminate|].
  destruct (_ && _); [intros [= <- <- _]; now left|intros H; right; now apply IH].
Qed.

Lemma vgood_vi w n : (2 <= w)%nat -> vgood (VI w n).
Proof. intros H. unfold vgood. cbn [type_of ty_good ty_size]. now apply Nat.leb_le. Qed.
Lemma vgood_vf i f n : (2 <= i + f)%nat -> vgood (VF i f n).
Proof. intros H. unfold vgood. cbn [type_of ty_good ty_size]. now apply Nat.leb_le. Qed.
Lemma vgood_vi_inv w n : vgood (VI w n) -> (2 <= w)%nat.
Proof. unfold vgood. cbn [type_of ty_good ty_size]. apply Nat.leb_le. Qed.
Lemma vgood_vf_inv i f n : vgood (VF i f n) -> (2 <= i + f)%nat.
Proof. unfold vgood. cbn [type_of ty_good ty_size]. apply Nat.leb_le. Qed.

Lemma eval_const_good c v : eval_const c = Some v -> vgood v.
Proof.
  destruct c as [b|z|neg x|cs|]; cbn [eval_const]; try discriminate.
  - now intros [= <-].
  - destruct (z <? 0)%Z; [discriminate|]. intros H. apply option_map_some in H as (w & Hw & ->).
    apply vgood_vi. unfold const_width in Hw. apply find_some in Hw as [Hin _]. cbn [In] in Hin.
    repeat (destruct Hin as [<-|Hin]; [lia|]). destruct Hin.
  - destruct neg; [discriminate|]. destruct (const_float_search _ _) as [[[i f] bits]|] eqn:E; [|discriminate].
    intros [= <-]. apply vgood_vf. apply shipped_qfixed_in. eapply const_float_search_in; eassumption.
  - destruct cs as [|c [|]]; try discriminate. destruct (c <? 256); [|discriminate]. now intros [= <-].
Qed.

Lemma eval_cast_good t c v : eval_cast t c = Some v -> vgood v.
Proof.
  unfold eval_cast. destruct (known_type t) eqn:K; cbn [negb]; [|discriminate].
  destruct t as [|w|i f| |l]; try discriminate; destruct c as [b|z|neg x|cs|]; try discriminate.
  - intros [= <-]. apply vgood_vi. now apply shipped_qint_in.
  - destruct (z <? 0)%Z; [discriminate|]. intros [= <-]. apply vgood_vf. now apply is_shipped_in.
  - destruct neg; [discriminate|]. intros [= <-]. apply vgood_vf. now apply is_shipped_in.
  - destruct cs as [|c [|]]; try discriminate. destruct (c <? 256); [|discriminate]. now intros [= <-].
Qed.

Lemma sub_val_good : forall p v0 v, vgood v0 -> sub_val v0 p = Some v -> vgood v.
Proof.
  induction p as [|i q IH]; intros v0 v G0 H; cbn [sub_val] in H; [now injection H as <-|].
  destruct v0 as [b|w n| | |l]; try discriminate.
  - destruct (_ <? _)%nat; [|discriminate]. apply (IH (VB (N.testbit n (N.of_nat i))) v); [reflexivity|exact H].
  - destruct (nth_error l i) as [v'|] eqn:E; [|discriminate]. apply (IH v'); [|exact H].
    unfold vgood in G0. cbn [type_of] in G0. rewrite ty_good_tuple in G0.
    rewrite forallb_forall in G0. apply G0. apply in_map. eapply nth_error_In; eassumption.
Qed.

Lemma vgood_vt vs : Forall vgood vs -> vgood (VT vs).
Proof.
  intros HF. unfold vgood. cbn [type_of]. rewrite ty_good_tuple.
  apply forallb_forall. intros t Ht. apply in_map_iff in Ht as (v & <- & Hv). rewrite Forall_forall in HF. now apply HF.
Qed.

Lemma eval_if_good vc vt vf v : vgood vt -> vgood vf -> eval_if vc vt vf = Some v -> vgood v.
Proof.
  intros Gt Gf. destruct vc as [b| | | |]; try discriminate. cbn [eval_if].
  destruct (ty_eq _ _); [intros [= <-]; now destruct b|].
  destruct vt as [|wt x| | |]; try discriminate. destruct vf as [|wf y| | |]; try discriminate.
  intros [= <-]. apply vgood_vi. apply vgood_vi_inv in Gt. lia.
Qed.

Lemma mul_sizing_ge2 k : (2 <= mul_sizing k)%nat.
Proof. unfold mul_sizing. repeat (destruct (_ <=? _)%nat; [lia|]). lia. Qed.

Lemma eval_bin_good op sh a b v : vgood a -> vgood b -> eval_bin op sh a b = Some v -> vgood v.
Proof.
  intros Ga Gb.
  destruct a as [p|wl x|i1 f1 x| |], b as [q|wr y|i2 f2 y| |]; cbn [eval_bin]; try discriminate.
  - destruct op; try discriminate; now intros [= <-].
  - apply vgood_vi_inv in Ga. apply vgood_vi_inv in Gb.
    destruct op; try discriminate; try (intros [= <-]; apply vgood_vi; lia).
    + destruct (_ && _); [|discriminate]. intros [= <-]. apply vgood_vi. apply mul_sizing_ge2.
    + destruct (_ && _); [|discriminate]. intros [= <-]. apply vgood_vi. lia.
    + destruct sh as [[k|]|]; try discriminate. intros [= <-]. now apply vgood_vi.
    + destruct sh as [[k|]|]; try discriminate. intros [= <-]. now apply vgood_vi.
  - apply vgood_vf_inv in Gb. destruct op; try discriminate. intros [= <-]. now apply vgood_vf.
  - apply vgood_vf_inv in Ga. destruct op; try discriminate. intros [= <-]. now apply vgood_vf.
  - apply vgood_vf_inv in Ga. apply vgood_vf_inv in Gb.
    destruct (fix_align i1 f1 i2 f2) as [[i f]|] eqn:E; [|discriminate].
    apply fix_align_spec in E as (_ & -> & ->).
    destruct op; try discriminate; intros [= <-]; apply vgood_vf; lia.
Qed.

Section Good.
  Variable num : sname -> nat.
  Variable rho : nat -> bool.
  Variables (G : env) (V : venv).
  Hypothesis Hok : env_ok num rho G V.
  Hypothesis Hcan : env_canon G.
  Hypothesis Hgood : env_good G.

  Definition good_at (e : pexp) : Prop :=
    forall r v, trans_exp num G e = Some r -> eval_exp V e = Some v -> vgood v.

  Lemma good_list l : Forall good_at l ->
    forall rs vs, trans_list num G l = Some rs -> eval_list V l = Some vs -> Forall vgood vs.
  Proof.
    induction 1 as [|e l He _ IH]; intros rs vs Ht Hv; cbn [trans_list eval_list] in Ht, Hv.
    - injection Hv as <-. constructor.
    - destruct (trans_exp num G e) as [a|] eqn:Ea; [|discriminate].
      destruct (trans_list num G l) as [b|] eqn:Eb; [|discriminate]. injection Ht as <-.
      destruct (eval_exp V e) as [va|] eqn:Eva; [|discriminate].
      destruct (eval_list V l) as [vb|] eqn:Evb; [|discriminate]. injection Hv as <-.
      constructor; [exact (He _ _ Ea Eva)|exact (IH _ _ eq_refl eq_refl)].
  Qed.

  (* the type of every value the evaluator gives to an accepted expression is ty_good *)
  Theorem trans_exp_good : forall e, good_at e.
  Proof.
    induction e as [x|x p|op l IH|op a IHa|c t f IHc IHt IHf|c|l|l IH|op a b IHa IHb|op a b IHa IHb|t c|a IHa|a IHa|]
      using pexp_ind2; intros r v Ht Hv.
    - cbn [trans_exp] in Ht. cbn [eval_exp] in Hv. destruct (lookup G x) as [[t bv]|] eqn:E; [|discriminate].
      destruct (Hok _ _ _ E) as (v' & Hv' & Hd). rewrite Hv in Hv'. injection Hv' as <-.
      destruct (decode_type _ _ _ Hd) as [T _]. unfold vgood. rewrite T. exact (Hgood _ _ _ E).
    - cbn [trans_exp] in Ht. unfold trans_sub in Ht. cbn [eval_exp] in Hv.
      destruct p as [|i q]; [discriminate|]. apply obind_some in Hv as (v0 & Hv0 & Hv).
      destruct (lookup G x) as [[t bv]|] eqn:E; [|discriminate].
      destruct (Hok _ _ _ E) as (v' & Hv' & Hd). rewrite Hv0 in Hv'. injection Hv' as <-.
      destruct (decode_type _ _ _ Hd) as [T _].
      apply (sub_val_good _ _ _ (eq_ind_r (fun t0 => ty_good t0 = true) (Hgood _ _ _ E) T) Hv).
    - change (eval_exp V (EBoolOp op l)) with (obind (eval_list V l) (eval_boolop op)) in Hv.
      apply obind_some in Hv as (vs & _ & Hv). unfold eval_boolop in Hv. destruct vs; [discriminate|].
      apply option_map_some in Hv as (bs & _ & ->). reflexivity.
    - cbn [trans_exp] in Ht. cbn [eval_exp] in Hv.
      apply obind_some in Ht as (ra & Hra & _). apply obind_some in Hv as (va & Hva & Hv).
      pose proof (IHa _ _ Hra Hva) as Ga.
      destruct op, va; cbn [eval_un] in Hv; try discriminate; injection Hv as <-; [reflexivity|].
      apply vgood_vi. now apply vgood_vi_inv in Ga.
    - cbn [trans_exp] in Ht. cbn [eval_exp] in Hv.
      apply obind_some in Ht as (rc & Hrc & Ht). apply obind_some in Ht as (rt & Hrt & Ht).
      apply obind_some in Ht as (rf & Hrf & _).
      apply obind_some in Hv as (vc & Hvc & Hv). apply obind_some in Hv as (vt & Hvt & Hv).
      apply obind_some in Hv as (vf & Hvf & Hv).
      exact (eval_if_good _ _ _ _ (IHt _ _ Hrt Hvt) (IHf _ _ Hrf Hvf) Hv).
    - cbn [eval_exp] in Hv. now apply eval_const_good in Hv.
    - cbn [eval_exp] in Hv. apply option_map_some in Hv as (vs & Hvs & ->).
      apply vgood_vt.
      clear Ht. revert vs Hvs. induction l as [|c l IHl]; intros vs Hvs; cbn [eval_const_elts] in Hvs.
      + injection Hvs as <-. constructor.
      + destruct c as [b|z|neg x|cs|]; try discriminate.
        * destruct (eval_const (CInt z)) as [v0|] eqn:E0; [|discriminate].
          destruct (eval_const_elts l) as [vs'|]; [|discriminate]. injection Hvs as <-.
          constructor; [now apply eval_const_good in E0|now apply IHl].
        * destruct (eval_const (CFloat neg x)) as [v0|] eqn:E0; [|discriminate].
          destruct (eval_const_elts l) as [vs'|]; [|discriminate]. injection Hvs as <-.
          constructor; [now apply eval_const_good in E0|now apply IHl].
        * destruct (eval_const (CStr cs)) as [v0|] eqn:E0; [|discriminate].
          destruct (eval_const_elts l) as [vs'|]; [|discriminate]. injection Hvs as <-.
          constructor; [now apply eval_const_good in E0|now apply IHl].
    - change (trans_exp num G (ETuple l)) with
        (option_map (fun rs => (TTuple (map fst rs), Nd (map snd rs))) (trans_list num G l)) in Ht.
      change (eval_exp V (ETuple l)) with (option_map VT (eval_list V l)) in Hv.
      apply option_map_some in Ht as (rs & Hrs & _). apply option_map_some in Hv as (vs & Hvs & ->).
      apply vgood_vt. exact (good_list l IH rs vs Hrs Hvs).
    - cbn [eval_exp] in Hv. apply obind_some in Hv as (va & _ & Hv). apply obind_some in Hv as (vb & _ & Hv).
      destruct (eval_cmp_vb _ _ _ _ Hv) as (x & ->). reflexivity.
    - cbn [trans_exp] in Ht. cbn [eval_exp] in Hv.
      apply obind_some in Ht as (ra & Hra & Ht). apply obind_some in Ht as (rb & Hrb & _).
      apply obind_some in Hv as (va & Hva & Hv). apply obind_some in Hv as (vb & Hvb & Hv).
      exact (eval_bin_good _ _ _ _ _ (IHa _ _ Hra Hva) (IHb _ _ Hrb Hvb) Hv).
    - cbn [eval_exp] in Hv. now apply eval_cast_good in Hv.
    - cbn [trans_exp] in Ht. cbn [eval_exp] in Hv.
      apply obind_some in Ht as (ra & Hra & Ht). apply obind_some in Hv as (va & Hva & Hv).
      pose proof (IHa _ _ Hra Hva) as Ga.
      pose proof (trans_exp_sound num rho G V a ra va Hok Hcan Hra Hva) as Hs.
      destruct va as [|w n|i f n| |]; cbn [eval_int] in Hv; try discriminate; injection Hv as <-; [exact Ga|].
      pose proof (sem_type _ _ _ Hs) as T. cbn [type_of] in T. unfold trans_int in Ht. rewrite <- T in Ht.
      apply obind_some in Ht as (l & Hl & Ht).
      assert (Htx : to_texp ra = Some (fst ra, l)) by (unfold to_texp; now rewrite Hl).
      destruct (sem_qfixed _ _ _ _ _ _ Htx (eq_sym T) Hs) as (_ & Ln & _). cbn [snd] in Ln.
      destruct (existsb (Nat.eqb (length (firstn i l))) shipped_qint) eqn:Sh; [|discriminate].
      rewrite firstn_length, Ln in Sh. replace (Nat.min i (i + f)) with i in Sh by lia.
      apply vgood_vi. now apply shipped_qint_in.
    - cbn [trans_exp] in Ht. cbn [eval_exp] in Hv.
      apply obind_some in Ht as (ra & Hra & _). apply obind_some in Hv as (va & Hva & Hv).
      pose proof (IHa _ _ Hra Hva) as Ga.
      destruct va as [|w n|i f n| |]; cbn [eval_float] in Hv; try discriminate; [|injection Hv as <-; exact Ga].
      destruct (qfixed_for_size w) as [tf|] eqn:Q; [|discriminate].
      destruct (qfixed_for_size_spec _ _ Q) as (f & ->). injection Hv as <-.
      apply vgood_vi_inv in Ga. apply vgood_vf. lia.
    - discriminate.
  Qed.
End Good.

(* ================================================================== *)
(* bit names are distinct; an injective numbering keeps them apart     *)
(* ================================================================== *)
Lemma NoDup_app_intro {A} (a b : list A) : NoDup a -> NoDup b -> (forall x, In x a -> ~ In x b) -> NoDup (a ++ b).
Proof.
  induction a as [|x a IH]; intros Ha Hb Hd; [exact Hb|]. cbn [app]. inversion Ha as [|? ? Hx Ha']; subst.
  constructor.
  - rewrite in_app_iff. intros [H|H]; [now apply Hx|]. apply (Hd x); [now left|exact H].
  - apply IH; [exact Ha'|exact Hb|]. intros y Hy. apply Hd. now right.
Qed.

Lemma NoDup_map_inj {A B} (f : A -> B) l : (forall x y, f x = f y -> x = y) -> NoDup l -> NoDup (map f l).
Proof.
  intros Hf. induction 1 as [|x l Hx _ IH]; cbn [map]; constructor; [|exact IH].
  intros H. apply in_map_iff in H as (y & E & Hy). apply Hf in E. now subst.
Qed.

Lemma nodupb_true l : NoDup l -> nodupb l = true.
Proof.
  induction 1 as [|x l Hx _ IH]; cbn [nodupb]; [reflexivity|]. rewrite IH, andb_true_r. apply negb_true_iff.
  destruct (existsb (Nat.eqb x) l) eqn:E; [|reflexivity]. apply existsb_exists in E as (y & Hy & E).
  apply Nat.eqb_eq in E. now subst.
Qed.

Lemma names_go_prefix base : forall l k n,
  (forall t b m, In t l -> In m (arg_names b t) -> exists suf, m = b ++ suf) ->
  In n (names_go base l k) -> exists k' suf, (k <= k')%nat /\ n = base ++ k' :: suf.
Proof.
  induction l as [|x l IH]; intros k n Hp H; cbn [names_go] in H; [destruct H|].
  apply in_app_iff in H as [H|H].
  - destruct (Hp x _ _ (or_introl eq_refl) H) as (suf & ->). exists k, suf. split; [lia|]. now rewrite <- app_assoc.
  - destruct (IH (S k) n (fun t b m Ht => Hp t b m (or_intror Ht)) H) as (k' & suf & Hk & ->).
    exists k', suf. split; [lia|reflexivity].
Qed.

Lemma arg_names_prefix : forall t base n, In n (arg_names base t) -> exists suf, n = base ++ suf.
Proof.
  induction t as [|w|i f| |l IH] using ty_ind2; intros base n H;
    try (cbn [arg_names] in H; unfold bit_names in H; apply in_map_iff in H as (k & <- & _); now eexists).
  - destruct H as [<-|[]]. exists []. now rewrite app_nil_r.
  - rewrite arg_names_tuple in H. rewrite Forall_forall in IH.
    destruct (names_go_prefix base l 0 n (fun t b m Ht => IH t Ht b m) H) as (k' & suf & _ & ->). now eexists.
Qed.

Lemma arg_names_nodup : forall t base, NoDup (arg_names base t).
Proof.
  assert (B : forall base n, NoDup (bit_names base n)).
  { intros base n. unfold bit_names. apply NoDup_map_inj; [|apply seq_NoDup].
    intros x y E. apply app_inv_head in E. now injection E. }
  induction t as [|w|i f| |l IH] using ty_ind2; intros base; try apply B.
  - constructor; [intros []|constructor].
  - rewrite arg_names_tuple. generalize 0%nat.
    induction IH as [|x l Hx Hl IHl]; intros k; cbn [names_go]; [constructor|].
    apply NoDup_app_intro; [apply Hx|apply IHl|].
    intros n H1 H2. destruct (arg_names_prefix _ _ _ H1) as (s1 & ->).
    rewrite Forall_forall in Hl.
    destruct (names_go_prefix base l (S k) _ (fun t b m _ => arg_names_prefix t b m) H2) as (k' & s2 & Hk & E).
    rewrite <- app_assoc in E. apply app_inv_head in E. cbn [app] in E. injection E as E _. lia.
Qed.

Section Stmt.
  Variable num : sname -> nat.
  (* distinct bit names have distinct numbers *)
  Hypothesis Hinj : forall a b, num a = num b -> a = b.

  (* binding a translated value whose definitions carry the names of its type *)
  (* the core: rho' assigns to the numbered names of the definitions their values under rho, and
     is rho elsewhere *)
  Lemma bind_res_core rho rho' G V x r v :
    env_ok num rho G V -> env_canon G -> sem rho r v ->
    map fst (decompose [x] (snd r)) = arg_names [x] (fst r) ->
    (forall j, ~ In j (map fst (numbered num (decompose [x] (snd r)))) -> rho' j = rho j) ->
    Forall (fun d => rho' (fst d) = beval rho (snd d)) (numbered num (decompose [x] (snd r))) ->
    env_ok num rho' (bind G x (fst r, map fst (decompose [x] (snd r)))) (bind V x v)
    /\ env_canon (bind G x (fst r, map fst (decompose [x] (snd r)))).
  Proof.
    intros Hok Hcan Hs Hnames A B.
    assert (Hnum : map fst (numbered num (decompose [x] (snd r))) = map num (arg_names [x] (fst r))).
    { unfold numbered. rewrite map_map. cbn [fst]. rewrite <- Hnames. now rewrite map_map. }
    split.
    - intros y t bv Hy. rewrite lookup_bind in Hy. rewrite lookup_bind. destruct (Nat.eqb_spec y x) as [->|Hyx].
      + injection Hy as <- <-. exists v. split; [reflexivity|].
        set (ds := decompose [x] (snd r)) in *.
        assert (E : map (rbit num rho') (map fst ds) = map (beval rho) (flat (snd r))); [|rewrite E; exact Hs].
        rewrite <- (decompose_snd (snd r) [x]). fold ds. rewrite !map_map.
        apply map_ext_in. intros d Hd. unfold numbered in B. rewrite Forall_map in B.
        rewrite Forall_forall in B. exact (B d Hd).
      + destruct (Hok _ _ _ Hy) as (v0 & Hv0 & Hd). exists v0. split; [exact Hv0|].
        rewrite <- Hd. f_equal. apply map_ext_in. intros s Hin. unfold rbit. apply A.
        rewrite Hnum. intros Hin'. apply in_map_iff in Hin' as (n & En & Hn). apply Hinj in En. subst n.
        rewrite (Hcan _ _ _ Hy) in Hin.
        destruct (arg_names_prefix _ _ _ Hin) as (s1 & E1). destruct (arg_names_prefix _ _ _ Hn) as (s2 & E2).
        rewrite E1 in E2. cbn [app] in E2. injection E2 as E2 _. congruence.
    - intros y t bv Hy. rewrite lookup_bind in Hy. destruct (Nat.eqb_spec y x) as [->|Hyx].
      + injection Hy as <- <-. exact Hnames.
      + now apply Hcan in Hy.
  Qed.

  Lemma numbered_nodup x r : map fst (decompose [x] (snd r)) = arg_names [x] (fst r) ->
    NoDup (map fst (numbered num (decompose [x] (snd r)))).
  Proof.
    intros Hnames. unfold numbered. rewrite map_map. cbn [fst]. rewrite <- (map_map fst num), Hnames.
    apply NoDup_map_inj; [exact Hinj|apply arg_names_nodup].
  Qed.

  (* binding a translated value whose definitions carry the names of its type *)
  Lemma bind_res_sound rho G V x r v :
    env_ok num rho G V -> env_canon G -> sem rho r v ->
    map fst (decompose [x] (snd r)) = arg_names [x] (fst r) ->
    seq_ok (numbered num (decompose [x] (snd r))) = true ->
    env_ok num (run_defs rho (numbered num (decompose [x] (snd r))))
           (bind G x (fst r, map fst (decompose [x] (snd r)))) (bind V x v)
    /\ env_canon (bind G x (fst r, map fst (decompose [x] (snd r)))).
  Proof.
    intros Hok Hcan Hs Hnames Hseq.
    pose proof (nodupb_true _ (numbered_nodup x r Hnames)) as Hnd.
    destruct (run_defs_seq _ rho Hseq Hnd) as [A B].
    exact (bind_res_core rho _ G V x r v Hok Hcan Hs Hnames A B).
  Qed.

  Lemma env_good_bind G x t bv : env_good G -> ty_good t = true -> env_good (bind G x (t, bv)).
  Proof.
    intros Hg Ht y t' bv' Hy. rewrite lookup_bind in Hy. destruct (Nat.eqb y x); [now injection Hy as <- _|].
    exact (Hg _ _ _ Hy).
  Qed.

  (* a statement: the only per-program side condition is seq_ok (stmt_guard) *)
  Theorem trans_stmt_sound rho G V rt s ds G' V' :
    env_ok num rho G V -> env_canon G -> env_good G -> ty_good rt = true ->
    stmt_guard num G rt s = true ->
    trans_stmt num G rt s = Some (ds, G') -> eval_stmt V rt s = Some V' ->
    env_ok num (run_defs rho (numbered num ds)) G' V' /\ env_canon G' /\ env_good G'.
  Proof.
    intros Hok Hcan Hgood Hrt Hg Ht Hv.
    destruct s as [x e|e|e|]; cbn [trans_stmt eval_stmt] in *.
    - (* Assign *)
      unfold stmt_guard, stmt_guard_g in Hg. unfold trans_assign in Ht.
      destruct (trans_exp num G e) as [r0|] eqn:Et; [|discriminate]. injection Ht as <- <-.
      apply option_map_some in Hv as (v & Hv & ->).
      pose proof (trans_exp_sound num rho G V e _ v Hok Hcan Et Hv) as Hs.
      pose proof (trans_exp_wf num rho G V Hok Hcan Hgood e _ v Et Hv) as W.
      pose proof (trans_exp_good num rho G V Hok Hcan Hgood e _ v Et Hv) as Gv.
      unfold res_guard_g in Hg. rewrite andb_true_r in Hg.
      pose proof (regroup_canon rho x r0 v Hs W) as Hn. rewrite <- (regroup_value_type r0) in Hn.
      destruct (bind_res_sound rho G V x (regroup_value r0) v Hok Hcan (regroup_value_sem rho _ _ Hs) Hn Hg) as [A B].
      split; [exact A|split; [exact B|]]. apply env_good_bind; [exact Hgood|].
      rewrite regroup_value_type. unfold vgood in Gv. now rewrite (sem_type _ _ _ Hs) in Gv.
    - (* Return *)
      unfold stmt_guard, stmt_guard_g in Hg. unfold trans_return in Ht.
      apply obind_some in Ht as (r0 & Et & Ht). apply obind_some in Ht as (r1 & Ec & Ht).
      rewrite Et in Hg. cbn [obind] in Hg. rewrite Ec in Hg.
      destruct (lookup G ret_id); [discriminate|]. injection Ht as <- <-.
      apply obind_some in Hv as (v & Hv & Hv'). apply obind_some in Hv' as (v' & Hc & Hv').
      destruct (lookup V ret_id); [discriminate|]. injection Hv' as <-.
      pose proof (trans_exp_sound num rho G V e _ v Hok Hcan Et Hv) as Hs.
      pose proof (trans_exp_wf num rho G V Hok Hcan Hgood e _ v Et Hv) as W.
      destruct (ret_coerce_sound rho rt r0 v r1 v' Hs Ec Hc) as [Hs1 Hty].
      pose proof (ret_coerce_wf rt r0 r1 W Ec) as W1.
      unfold res_guard_g in Hg. rewrite andb_true_r in Hg.
      pose proof (regroup_canon rho ret_id r1 v' Hs1 W1) as Hn. rewrite <- (regroup_value_type r1) in Hn.
      destruct (bind_res_sound rho G V ret_id (regroup_value r1) v' Hok Hcan (regroup_value_sem rho _ _ Hs1) Hn Hg) as [A B].
      split; [exact A|split; [exact B|]]. apply env_good_bind; [exact Hgood|].
      rewrite regroup_value_type, Hty. exact Hrt.
    - (* Expr *)
      destruct (trans_exp num G e); [|discriminate]. injection Ht as <- <-.
      apply option_map_some in Hv as (v & _ & ->). now repeat split.
    - discriminate.
  Qed.

  Lemma run_defs_app rho a b : run_defs rho (a ++ b) = run_defs (run_defs rho a) b.
  Proof. unfold run_defs. apply fold_left_app. Qed.

  Theorem trans_body_sound : forall body rho G V rt ds G' V',
    env_ok num rho G V -> env_canon G -> env_good G -> ty_good rt = true ->
    body_guard num G rt body = true ->
    trans_body num G rt body = Some (ds, G') -> eval_body V rt body = Some V' ->
    env_ok num (run_defs rho (numbered num ds)) G' V' /\ env_canon G' /\ env_good G'.
  Proof.
    induction body as [|s body IH]; intros rho G V rt ds G' V' Hok Hcan Hgood Hrt Hg Ht Hv.
    - cbn in Ht, Hv. injection Ht as <- <-. injection Hv as <-. now repeat split.
    - unfold body_guard in Hg. cbn [trans_body eval_body body_guard_g] in *.
      apply andb_true_iff in Hg as [Hg1 Hg2].
      apply obind_some in Ht as ([ds1 G1] & Ht1 & Ht). apply obind_some in Ht as ([ds2 G2] & Ht2 & Ht).
      cbn [fst snd] in *. injection Ht as <- <-. apply obind_some in Hv as (V1 & Hv1 & Hv2).
      rewrite Ht1 in Hg2. cbn [snd] in Hg2.
      destruct (trans_stmt_sound rho G V rt s ds1 G1 V1 Hok Hcan Hgood Hrt Hg1 Ht1 Hv1) as (Hok1 & Hcan1 & Hgood1).
      unfold numbered. rewrite map_app, run_defs_app. fold (numbered num ds1). fold (numbered num ds2).
      exact (IH _ _ _ _ _ _ _ Hok1 Hcan1 Hgood1 Hrt Hg2 Ht2 Hv2).
  Qed.
End Stmt.

(* ================================================================== *)
(* statements whose definitions can ALWAYS be read simultaneously      *)
(* ================================================================== *)
(* ---- the evaluator reads only the names that occur ---- *)
Lemma eval_exp_fv V V' : forall e, (forall y, In y (fv e) -> lookup V y = lookup V' y) ->
  eval_exp V e = eval_exp V' e.
Proof.
  induction e as [x|x p|op l IH|op a IHa|c t f IHc IHt IHf|c|l|l IH|op a b IHa IHb|op a b IHa IHb|t c|a IHa|a IHa|]
    using pexp_ind2; intros H; cbn [fv] in H; try reflexivity.
  - cbn [eval_exp]. apply H. now left.
  - cbn [eval_exp]. rewrite (H x (or_introl eq_refl)). reflexivity.
  - change (eval_exp V (EBoolOp op l)) with (obind (eval_list V l) (eval_boolop op)).
    change (eval_exp V' (EBoolOp op l)) with (obind (eval_list V' l) (eval_boolop op)).
    f_equal. induction IH as [|e l He _ IHl]; [reflexivity|]. cbn [eval_list flat_map] in *.
    rewrite He by (intros y Hy; apply H, in_or_app; now left).
    rewrite IHl by (intros y Hy; apply H, in_or_app; now right). reflexivity.
  - cbn [eval_exp]. now rewrite IHa.
  - cbn [eval_exp]. rewrite IHc, IHt, IHf; [reflexivity| | |]; intros y Hy; apply H; rewrite !in_app_iff; auto.
  - change (eval_exp V (ETuple l)) with (option_map VT (eval_list V l)).
    change (eval_exp V' (ETuple l)) with (option_map VT (eval_list V' l)).
    f_equal. induction IH as [|e l He _ IHl]; [reflexivity|]. cbn [eval_list flat_map] in *.
    rewrite He by (intros y Hy; apply H, in_or_app; now left).
    rewrite IHl by (intros y Hy; apply H, in_or_app; now right). reflexivity.
  - cbn [eval_exp]. rewrite IHa, IHb; [reflexivity| |]; intros y Hy; apply H; rewrite in_app_iff; auto.
  - cbn [eval_exp]. rewrite IHa, IHb; [reflexivity| |]; intros y Hy; apply H; rewrite in_app_iff; auto.
  - cbn [eval_exp]. now rewrite IHa.
  - cbn [eval_exp]. now rewrite IHa.
Qed.

Lemma fresh_in_spec x e : fresh_in x e = true -> ~ In x (fv e).
Proof.
  unfold fresh_in. intros H Hin. apply negb_true_iff in H.
  assert (existsb (Nat.eqb x) (fv e) = true); [|congruence].
  apply existsb_exists. exists x. split; [exact Hin|apply Nat.eqb_refl].
Qed.

(* ---- decode is total on lists of the right length, and encode inverts it ---- *)
Lemma decode_total : forall t bs, length bs = ty_size t -> exists v, decode t bs = Some v.
Proof.
  induction t as [|w|i f| |l IH] using ty_ind2; intros bs Hl; cbn [ty_size] in Hl.
  - destruct bs as [|b [|]]; try discriminate. now eexists.
  - cbn [decode]. rewrite Hl, Nat.eqb_refl. now eexists.
  - cbn [decode]. rewrite Hl, Nat.eqb_refl. now eexists.
  - cbn [decode]. rewrite Hl. cbn. now eexists.
  - rewrite decode_tuple.
    assert (G : exists vs, decode_list l bs = Some vs); [|destruct G as (vs & ->); now eexists].
    revert bs Hl. induction IH as [|x l Hx _ IHl]; intros bs Hl; cbn [decode_list map] in *.
    + apply length_zero_iff_nil in Hl. subst. now eexists.
    + change (list_sum (ty_size x :: map ty_size l)) with (ty_size x + list_sum (map ty_size l))%nat in Hl.
      destruct (Hx (firstn (ty_size x) bs)) as (a & ->); [rewrite firstn_length; lia|].
      destruct (IHl (skipn (ty_size x) bs)) as (b & ->); [rewrite skipn_length; lia|]. now eexists.
Qed.

Lemma decode_encode : forall t bs v, decode t bs = Some v -> encode v = bs.
Proof.
  induction t as [|w|i f| |l IH] using ty_ind2; intros bs v H.
  - apply decode_bool in H as (b & -> & ->). reflexivity.
  - apply decode_qint in H as (Hl & ->). cbn [encode]. rewrite <- Hl. apply nbits_bits_val.
  - apply decode_qfixed in H as (Hl & ->). cbn [encode]. unfold fix_val.
    rewrite <- (qrepr_length i bs) in Hl. rewrite <- Hl, nbits_bits_val.
    rewrite qrepr_length in Hl. now apply unrepr_qrepr.
  - apply decode_qchar in H as (Hl & ->). cbn [encode]. rewrite <- Hl. apply nbits_bits_val.
  - rewrite decode_tuple in H. apply option_map_some in H as (vs & H & ->). cbn [encode].
    revert bs vs H. induction IH as [|x l Hx _ IHl]; intros bs vs H; cbn [decode_list] in H.
    + destruct bs; [|discriminate]. now injection H as <-.
    + destruct (decode x (firstn (ty_size x) bs)) as [a|] eqn:Ea; [|discriminate].
      destruct (decode_list l (skipn (ty_size x) bs)) as [b|] eqn:Eb; [|discriminate]. injection H as <-.
      cbn [flat_map]. rewrite (Hx _ _ Ea), (IHl _ _ Eb). apply firstn_skipn.
Qed.

(* the k-th bit of a value *)
Definition bitk (k : nat) (v : value) : bool := nth k (encode v) false.

Lemma den_bit rho r v k : den rho r = Some v -> beval rho (nth k (flat (snd r)) bfalse) = bitk k v.
Proof.
  intros H. unfold den in H. apply decode_encode in H. unfold bitk. rewrite H.
  change false with (beval rho bfalse). now rewrite map_nth.
Qed.

(* ---- running a definition list whose k-th definition may read, of the assigned symbols, only
   its OWN target (the old value at the same index) ---- *)
Lemma run_defs_sem (S : list nat) rho : forall ds rho_c,
  NoDup (map fst ds) -> (forall d, In d ds -> In (fst d) S) ->
  (forall j, ~ In j S \/ In j (map fst ds) -> rho_c j = rho j) ->
  (forall d, In d ds -> forall rho1, (forall j, ~ In j S \/ j = fst d -> rho1 j = rho j) ->
                         beval rho1 (snd d) = beval rho (snd d)) ->
  (forall d, In d ds -> run_defs rho_c ds (fst d) = beval rho (snd d))
  /\ (forall j, ~ In j (map fst ds) -> run_defs rho_c ds j = rho_c j).
Proof.
  induction ds as [|[s e] ds IH]; intros rho_c Hnd HS Hinv Hind; [split; [intros d []|reflexivity]|].
  cbn [map fst] in Hnd. inversion Hnd as [|? ? Hs Hnd']; subst.
  rewrite run_defs_cons. set (rho_c' := fun j => if Nat.eqb j s then beval rho_c e else rho_c j).
  assert (E0 : beval rho_c e = beval rho e).
  { apply (Hind (s, e) (or_introl eq_refl)). intros j [Hj|Hj]; apply Hinv; [now left|right; subst; now left]. }
  assert (HsS : In s S) by (apply (HS (s, e)); now left).
  destruct (IH rho_c' Hnd') as [A B].
  - intros d Hd. apply HS. now right.
  - intros j Hj. unfold rho_c'. destruct (Nat.eqb_spec j s) as [->|Hne].
    + exfalso. destruct Hj as [Hj|Hj]; [now apply Hj|now apply Hs].
    + apply Hinv. destruct Hj as [Hj|Hj]; [now left|right; now right].
  - intros d Hd. apply Hind. now right.
  - split.
    + intros d [<-|Hd]; [|now apply A]. cbn [fst snd]. rewrite B by exact Hs. unfold rho_c'.
      now rewrite Nat.eqb_refl.
    + intros j Hj. cbn [map fst In] in Hj. rewrite B by tauto. unfold rho_c'.
      destruct (Nat.eqb_spec j s); [subst; tauto|reflexivity].
Qed.

(* ---- values ---- *)
Lemma decode_vi_lt t bs w n : decode t bs = Some (VI w n) -> n < p2 w.
Proof.
  intros H. destruct (decode_type _ _ _ H) as [T _]. cbn [type_of] in T. subst t.
  apply decode_qint in H as [Hl E]. injection E as ->. rewrite <- Hl. apply bits_val_lt.
Qed.

Lemma bitk_widen k w w' n : n < p2 w -> (w <= w')%nat -> bitk k (VI w' n) = bitk k (VI w n).
Proof.
  intros Hn Hw. unfold bitk. cbn [encode].
  destruct (Nat.ltb_spec k w) as [K|K].
  - rewrite !nbits_testbit by lia. reflexivity.
  - rewrite (nth_overflow (nbits w n)) by (rewrite nbits_length; exact K).
    destruct (Nat.ltb_spec k w') as [K'|K'].
    + rewrite nbits_testbit by exact K'. apply testbit_small.
      apply N.lt_le_trans with (p2 w); [exact Hn|]. apply p2_le. exact K.
    + apply nth_overflow. rewrite nbits_length. exact K'.
Qed.

(* b is the type a, or a wider integer type *)
Definition widen_of (a b : ty) : Prop := a = b \/ exists w w', a = TQint w /\ b = TQint w' /\ (w <= w')%nat.

Section SelfIte.
  Variable num : sname -> nat.
  Variables (rho0 rho1 : nat -> bool) (G : env) (V0 V1 : venv) (x : ident) (k : nat) (v0 v1 : value).
  Hypothesis Hok0 : env_ok num rho0 G V0.
  Hypothesis Hok1 : env_ok num rho1 G V1.
  Hypothesis Hcan : env_canon G.
  Hypothesis Hsame : forall y, y <> x -> lookup V1 y = lookup V0 y.
  Hypothesis Hx0 : lookup V0 x = Some v0.
  Hypothesis Hx1 : lookup V1 x = Some v1.
  Hypothesis Hty : type_of v1 = type_of v0.
  Hypothesis Hbit : bitk k v1 = bitk k v0.

  Lemma fresh_eval e : fresh_in x e = true -> eval_exp V1 e = eval_exp V0 e.
  Proof.
    intros F. apply eval_exp_fv. intros y Hy. apply Hsame. intros ->. exact (fresh_in_spec _ _ F Hy).
  Qed.

  Definition stable_at (e : pexp) : Prop :=
    forall r w0, trans_exp num G e = Some r -> eval_exp V0 e = Some w0 ->
    exists w1, eval_exp V1 e = Some w1 /\ type_of w1 = type_of w0 /\ bitk k w1 = bitk k w0.

  Lemma fresh_stable e : fresh_in x e = true -> stable_at e.
  Proof. intros F r w0 _ H0. exists w0. rewrite (fresh_eval e F). now repeat split. Qed.

  (* an if-expression over stable branches *)
  Lemma if_stable c t f : fresh_in x c = true -> stable_at t -> stable_at f -> stable_at (EIf c t f).
  Proof.
    intros Fc St Sf r w0 Ht H0. cbn [trans_exp] in Ht. cbn [eval_exp] in H0 |- *.
    apply obind_some in Ht as (rc & Hrc & Ht). apply obind_some in Ht as (rt & Hrt & Ht).
    apply obind_some in Ht as (rf & Hrf & _).
    apply obind_some in H0 as (vc & Hvc & H0). apply obind_some in H0 as (vt0 & Hvt & H0).
    apply obind_some in H0 as (vf0 & Hvf & H0).
    rewrite (fresh_eval c Fc), Hvc. cbn [obind].
    destruct (St _ _ Hrt Hvt) as (vt1 & Et & Tt & Bt). destruct (Sf _ _ Hrf Hvf) as (vf1 & Ef & Tf & Bf).
    rewrite Et, Ef. cbn [obind].
    destruct vc as [b| | | |]; try discriminate. cbn [eval_if] in H0 |- *. rewrite Tt, Tf.
    destruct (ty_eq (type_of vt0) (type_of vf0)).
    - injection H0 as <-. eexists. split; [reflexivity|]. destruct b; now split.
    - destruct vt0 as [|wt x0| | |]; try discriminate. destruct vf0 as [|wf y0| | |]; try discriminate.
      injection H0 as <-.
      destruct vt1 as [|wt' x1| | |]; try discriminate. destruct vf1 as [|wf' y1| | |]; try discriminate.
      cbn [type_of] in Tt, Tf. injection Tt as ->. injection Tf as ->.
      eexists. split; [reflexivity|]. split; [reflexivity|].
      pose proof (trans_exp_sound num rho0 G V0 t rt _ Hok0 Hcan Hrt Hvt) as S0t.
      pose proof (trans_exp_sound num rho1 G V1 t rt _ Hok1 Hcan Hrt Et) as S1t.
      pose proof (trans_exp_sound num rho0 G V0 f rf _ Hok0 Hcan Hrf Hvf) as S0f.
      pose proof (trans_exp_sound num rho1 G V1 f rf _ Hok1 Hcan Hrf Ef) as S1f.
      apply decode_vi_lt in S0t, S1t, S0f, S1f.
      destruct b.
      + rewrite (bitk_widen k wt _ x1 S1t) by lia. rewrite (bitk_widen k wt _ x0 S0t) by lia. exact Bt.
      + rewrite (bitk_widen k wf _ y1 S1f) by lia. rewrite (bitk_widen k wf _ y0 S0f) by lia. exact Bf.
  Qed.

  Theorem selfite_stable : forall e, selfite x e = true -> stable_at e.
  Proof.
    induction e as [y|y p|op l IH|op a IHa|c t f IHc IHt IHf|c|l|l IH|op a b IHa IHb|op a b IHa IHb|t c|a IHa|a IHa|]
      using pexp_ind2; cbn [selfite]; intros H; try discriminate.
    - apply Nat.eqb_eq in H. subst y. intros r w0 _ H0. cbn [eval_exp] in H0 |- *.
      rewrite Hx0 in H0. injection H0 as <-. exists v1. now repeat split.
    - apply andb_true_iff in H as [Fc H]. apply if_stable; [exact Fc| |].
      + apply orb_true_iff in H as [H|H]; apply andb_true_iff in H as [H1 H2];
          [now apply IHt|now apply fresh_stable].
      + apply orb_true_iff in H as [H|H]; apply andb_true_iff in H as [H1 H2]; [|now apply IHf].
        apply orb_true_iff in H2 as [H2|H2]; [now apply IHf|now apply fresh_stable].
  Qed.

  (* the type of a self-referencing if-chain is the type of x, or a wider integer type *)
  Theorem selfite_type : forall e w0, selfite x e = true -> eval_exp V0 e = Some w0 ->
    widen_of (type_of v0) (type_of w0).
  Proof.
    induction e as [y|y p|op l IH|op a IHa|c t f IHc IHt IHf|c|l|l IH|op a b IHa IHb|op a b IHa IHb|t c|a IHa|a IHa|]
      using pexp_ind2; cbn [selfite]; intros w0 H H0; try discriminate.
    - apply Nat.eqb_eq in H. subst y. cbn [eval_exp] in H0. rewrite Hx0 in H0. injection H0 as <-. now left.
    - apply andb_true_iff in H as [_ H]. cbn [eval_exp] in H0.
      apply obind_some in H0 as (vc & _ & H0). apply obind_some in H0 as (vt0 & Hvt & H0).
      apply obind_some in H0 as (vf0 & Hvf & H0).
      assert (W : widen_of (type_of v0) (type_of vt0) \/ widen_of (type_of v0) (type_of vf0)).
      { apply orb_true_iff in H as [H|H]; apply andb_true_iff in H as [H1 H2];
          [left; now apply IHt|right; now apply IHf]. }
      destruct vc as [b| | | |]; try discriminate. cbn [eval_if] in H0.
      destruct (ty_eq (type_of vt0) (type_of vf0)) eqn:E.
      + apply ty_eq_true in E. injection H0 as <-. destruct b, W as [W|W]; congruence.
      + destruct vt0 as [|wt x0| | |]; try discriminate. destruct vf0 as [|wf y0| | |]; try discriminate.
        injection H0 as <-. cbn [type_of] in *. right.
        destruct W as [[W|(w & w' & A & B & C)]|[W|(w & w' & A & B & C)]].
        * exists wt, (Nat.max wt wf). repeat split; [exact W|lia].
        * injection B as <-. exists w, (Nat.max wt wf). repeat split; [exact A|lia].
        * exists wf, (Nat.max wt wf). repeat split; [exact W|lia].
        * injection B as <-. exists w, (Nat.max wt wf). repeat split; [exact A|lia].
  Qed.
End SelfIte.

Lemma selfite_bound num G x : forall e r, selfite x e = true -> trans_exp num G e = Some r ->
  exists b, lookup G x = Some b.
Proof.
  induction e as [y|y p|op l IH|op a IHa|c t f IHc IHt IHf|c|l|l IH|op a b IHa IHb|op a b IHa IHb|t c|a IHa|a IHa|]
    using pexp_ind2; cbn [selfite]; intros r H Ht; try discriminate.
  - apply Nat.eqb_eq in H. subst y. cbn [trans_exp] in Ht. destruct (lookup G x) as [b|]; [now exists b|discriminate].
  - apply andb_true_iff in H as [_ H]. cbn [trans_exp] in Ht.
    apply obind_some in Ht as (rc & _ & Ht). apply obind_some in Ht as (rt & Hrt & Ht).
    apply obind_some in Ht as (rf & Hrf & _).
    apply orb_true_iff in H as [H|H]; apply andb_true_iff in H as [H1 H2]; [now apply (IHt rt)|now apply (IHf rf)].
Qed.

Lemma nth_map_lt {A} (f : A -> bool) (l : list A) d k : (k < length l)%nat -> nth k (map f l) false = f (nth k l d).
Proof. intros H. rewrite (nth_indep _ false (f d)) by (now rewrite map_length). apply map_nth. Qed.

Lemma arg_names_widen base a b k : widen_of a b -> (k < ty_size a)%nat ->
  nth k (arg_names base a) [] = nth k (arg_names base b) [].
Proof.
  intros [->|(w & w' & -> & -> & Hw)] Hk; [reflexivity|]. cbn [ty_size] in Hk. cbn [arg_names ty_size].
  unfold bit_names.
  rewrite (nth_indep _ [] (base ++ [0%nat])) by (rewrite map_length, seq_length; lia).
  rewrite (nth_indep (map _ (seq 0 w')) [] (base ++ [0%nat])) by (rewrite map_length, seq_length; lia).
  rewrite !(map_nth (fun i => base ++ [i])), !seq_nth by lia. reflexivity.
Qed.

Section Class.
  Variable num : sname -> nat.
  Hypothesis Hinj : forall a b, num a = num b -> a = b.

  (* a bit name of ANOTHER binding is not among names that start with x *)
  Lemma other_not_in G y t bv x (N : list sname) s :
    env_canon G -> lookup G y = Some (t, bv) -> y <> x -> In s bv ->
    (forall n, In n N -> exists suf, n = [x] ++ suf) -> ~ In (num s) (map num N).
  Proof.
    intros Hcan Hy Hne Hin HN H. apply in_map_iff in H as (n & En & Hn). apply Hinj in En. subst n.
    rewrite (Hcan _ _ _ Hy) in Hin. destruct (arg_names_prefix _ _ _ Hin) as (s1 & E1).
    destruct (HN _ Hn) as (s2 & E2). rewrite E1 in E2. cbn [app] in E2. injection E2 as E2 _. congruence.
  Qed.

  (* the environment still fits an assignment that differs from rho only on names that start with
     x, once the value of x is re-read from that assignment *)
  Lemma env_ok_shift rho rho1 G V x (N : list sname) :
    env_ok num rho G V -> env_canon G ->
    (forall n, In n N -> exists suf, n = [x] ++ suf) ->
    (forall j, ~ In j (map num N) -> rho1 j = rho j) ->
    exists V1, env_ok num rho1 G V1 /\ (forall y, y <> x -> lookup V1 y = lookup V y)
      /\ (forall t bv v0, lookup G x = Some (t, bv) -> lookup V x = Some v0 ->
            exists v1, lookup V1 x = Some v1 /\ type_of v1 = type_of v0 /\
                       encode v1 = map (rbit num rho1) bv /\ encode v0 = map (rbit num rho) bv).
  Proof.
    intros Hok Hcan HN Hag.
    assert (Oth : forall y t bv, lookup G y = Some (t, bv) -> y <> x ->
                    map (rbit num rho1) bv = map (rbit num rho) bv).
    { intros y t bv Hy Hne. apply map_ext_in. intros s Hs. unfold rbit. apply Hag.
      exact (other_not_in G y t bv x N s Hcan Hy Hne Hs HN). }
    destruct (lookup G x) as [[t bv]|] eqn:E.
    - destruct (Hok _ _ _ E) as (v0 & Hv0 & Hd0). destruct (decode_type _ _ _ Hd0) as [T0 L0].
      rewrite map_length in L0.
      destruct (decode_total t (map (rbit num rho1) bv)) as (v1 & Hd1); [now rewrite map_length|].
      exists (bind V x v1). split; [|split].
      + intros y ty bvy Hy. rewrite lookup_bind. destruct (Nat.eqb_spec y x) as [->|Hne].
        * rewrite E in Hy. injection Hy as <- <-. now exists v1.
        * destruct (Hok _ _ _ Hy) as (vy & Hvy & Hdy). exists vy. split; [exact Hvy|].
          now rewrite (Oth _ _ _ Hy Hne).
      + intros y Hne. rewrite lookup_bind. now destruct (Nat.eqb_spec y x).
      + intros t' bv' v0' Ht' Hv0'. injection Ht' as <- <-. rewrite Hv0 in Hv0'. injection Hv0' as <-.
        exists v1. rewrite lookup_bind, Nat.eqb_refl. split; [reflexivity|].
        destruct (decode_type _ _ _ Hd1) as [T1 _]. split; [congruence|].
        split; [exact (decode_encode _ _ _ Hd1)|exact (decode_encode _ _ _ Hd0)].
    - exists V. split; [|split; [reflexivity|discriminate]].
      intros y ty bvy Hy. destruct (Hok _ _ _ Hy) as (vy & Hvy & Hdy). exists vy. split; [exact Hvy|].
      assert (Hne : y <> x) by (intros ->; congruence). now rewrite (Oth _ _ _ Hy Hne).
  Qed.

  (* under an assignment that differs from rho on names of x other than the k-th, the translation of
     an expression of the class denotes a value with the same k-th bit *)
  Lemma class_den rho G V x e r0 v (N : list sname) k rho1 :
    env_ok num rho G V -> env_canon G ->
    trans_exp num G e = Some r0 -> eval_exp V e = Some v ->
    (forall n, In n N -> exists suf, n = [x] ++ suf) ->
    (forall j, ~ In j (map num N) \/ j = num (nth k N []) -> rho1 j = rho j) ->
    (fresh_in x e = true \/ (selfite x e = true /\ N = arg_names [x] (type_of v))) ->
    exists w1, den rho1 r0 = Some w1 /\ type_of w1 = type_of v /\ bitk k w1 = bitk k v.
  Proof.
    intros Hok Hcan Ht Hv HN Hag Hcl.
    destruct (env_ok_shift rho rho1 G V x N Hok Hcan HN (fun j Hj => Hag j (or_introl Hj)))
      as (V1 & Hok1 & Hsame & Hx).
    destruct Hcl as [F|[S HNeq]].
    - assert (E : eval_exp V1 e = Some v).
      { rewrite <- Hv. apply eval_exp_fv. intros y Hy. apply Hsame. intros ->. exact (fresh_in_spec _ _ F Hy). }
      exists v. split; [exact (trans_exp_sound num rho1 G V1 e r0 v Hok1 Hcan Ht E)|now split].
    - destruct (selfite_bound num G x e r0 S Ht) as ([t bv] & HG).
      destruct (Hok _ _ _ HG) as (v0 & Hv0 & Hd0). destruct (decode_type _ _ _ Hd0) as [T0 L0].
      rewrite map_length in L0.
      destruct (Hx t bv v0 HG Hv0) as (v1 & Hv1 & Ty & E1 & E0).
      pose proof (selfite_type V x v0 Hv0 e v S Hv) as W.
      assert (Hbit : bitk k v1 = bitk k v0).
      { unfold bitk. rewrite E1, E0. destruct (Nat.ltb_spec k (length bv)) as [K|K].
        - rewrite !(nth_map_lt _ bv []) by exact K. unfold rbit. apply Hag. right. f_equal.
          rewrite (Hcan _ _ _ HG), HNeq. apply arg_names_widen; [rewrite <- T0; exact W|lia].
        - rewrite !nth_overflow by (rewrite map_length; exact K). reflexivity. }
      destruct (selfite_stable num rho rho1 G V V1 x k v0 v1 Hok Hok1 Hcan Hsame Hv0 Hv1 Ty Hbit e S r0 v Ht Hv)
        as (w1 & Ew & Tw & Bw).
      exists w1. split; [exact (trans_exp_sound num rho1 G V1 e r0 w1 Hok1 Hcan Ht Ew)|now split].
  Qed.

  (* binding a value whose k-th definition may read, of the assigned symbols, only the k-th *)
  Lemma class_bind rho G V x r v :
    env_ok num rho G V -> env_canon G -> sem rho r v ->
    map fst (decompose [x] (snd r)) = arg_names [x] (fst r) ->
    (forall k rho1,
        (forall j, ~ In j (map num (arg_names [x] (fst r))) \/ j = num (nth k (arg_names [x] (fst r)) []) ->
                   rho1 j = rho j) ->
        beval rho1 (nth k (flat (snd r)) bfalse) = beval rho (nth k (flat (snd r)) bfalse)) ->
    env_ok num (run_defs rho (numbered num (decompose [x] (snd r))))
           (bind G x (fst r, map fst (decompose [x] (snd r)))) (bind V x v)
    /\ env_canon (bind G x (fst r, map fst (decompose [x] (snd r)))).
  Proof.
    intros Hok Hcan Hs Hnames Hind.
    set (dec := decompose [x] (snd r)) in *. set (ds := numbered num dec).
    assert (HS : map fst ds = map num (arg_names [x] (fst r))).
    { unfold ds, numbered. rewrite map_map. cbn [fst]. rewrite <- Hnames. now rewrite map_map. }
    destruct (run_defs_sem (map fst ds) rho ds rho) as [A B].
    - exact (numbered_nodup num Hinj x r Hnames).
    - intros d Hd. now apply in_map.
    - reflexivity.
    - intros d Hd rho1 Hag.
      destruct (In_nth ds d (num [], bfalse) Hd) as (k & Hk & <-).
      unfold ds, numbered in *. rewrite map_length in Hk.
      change (num [], bfalse) with ((fun d0 : sname * bexp => (num (fst d0), snd d0)) ([], bfalse)) in *.
      rewrite map_nth in *. cbn [fst snd] in *.
      assert (F1 : fst (nth k dec ([], bfalse)) = nth k (arg_names [x] (fst r)) []).
      { rewrite <- Hnames. symmetry. exact (map_nth fst dec ([], bfalse) k). }
      assert (F2 : snd (nth k dec ([], bfalse)) = nth k (flat (snd r)) bfalse).
      { rewrite <- (decompose_snd (snd r) [x]). symmetry. exact (map_nth snd dec ([], bfalse) k). }
      rewrite F2. apply Hind. intros j Hj. apply Hag. rewrite F1. rewrite HS in *.
      destruct Hj as [Hj|Hj]; [left|right]; assumption.
    - apply (bind_res_core num Hinj rho _ G V x r v Hok Hcan Hs Hnames).
      + intros j Hj. apply B. exact Hj.
      + apply Forall_forall. intros d Hd. now apply A.
  Qed.

  (* ONE statement: in the syntactic class nothing is asked; outside it, seq_ok *)
  Theorem trans_stmt_sound2 rho G V rt s ds G' V' :
    env_ok num rho G V -> env_canon G -> env_good G -> ty_good rt = true ->
    stmt_guard2 num G rt s = true ->
    trans_stmt num G rt s = Some (ds, G') -> eval_stmt V rt s = Some V' ->
    env_ok num (run_defs rho (numbered num ds)) G' V' /\ env_canon G' /\ env_good G'.
  Proof.
    intros Hok Hcan Hgood Hrt Hg Ht Hv. unfold stmt_guard2 in Hg.
    destruct (stmt_class s) eqn:Cl; [|exact (trans_stmt_sound num Hinj rho G V rt s ds G' V' Hok Hcan Hgood Hrt Hg Ht Hv)].
    clear Hg. destruct s as [x e|e|e|]; cbn [trans_stmt eval_stmt stmt_class] in *.
    - (* Assign *)
      unfold trans_assign in Ht.
      destruct (trans_exp num G e) as [r0|] eqn:Et; [|discriminate]. injection Ht as <- <-.
      apply option_map_some in Hv as (v & Hv & ->).
      pose proof (trans_exp_sound num rho G V e _ v Hok Hcan Et Hv) as Hs.
      pose proof (trans_exp_wf num rho G V Hok Hcan Hgood e _ v Et Hv) as W.
      pose proof (trans_exp_good num rho G V Hok Hcan Hgood e _ v Et Hv) as Gv.
      pose proof (regroup_canon rho x r0 v Hs W) as Hn. rewrite <- (regroup_value_type r0) in Hn.
      pose proof (regroup_value_sem rho _ _ Hs) as Hs'.
      destruct (class_bind rho G V x (regroup_value r0) v Hok Hcan Hs' Hn) as [A B].
      + intros k rho1 Hag. rewrite regroup_value_type in Hag.
        destruct (class_den rho G V x e r0 v (arg_names [x] (fst r0)) k rho1 Hok Hcan Et Hv
                    (fun n Hn' => arg_names_prefix _ _ _ Hn') Hag) as (w1 & D1 & T1 & B1).
        * apply orb_true_iff in Cl as [F|S]; [now left|right]. split; [exact S|].
          now rewrite (sem_type _ _ _ Hs).
        * pose proof (regroup_value_sem rho1 _ _ D1) as D1'.
          rewrite (den_bit rho1 _ _ k D1'), (den_bit rho _ _ k Hs'). exact B1.
      + split; [exact A|split; [exact B|]]. apply env_good_bind; [exact Hgood|].
        rewrite regroup_value_type. unfold vgood in Gv. now rewrite (sem_type _ _ _ Hs) in Gv.
    - (* Return *)
      unfold trans_return in Ht.
      apply obind_some in Ht as (r0 & Et & Ht). apply obind_some in Ht as (r1 & Ec & Ht).
      destruct (lookup G ret_id); [discriminate|]. injection Ht as <- <-.
      apply obind_some in Hv as (v & Hv & Hv'). apply obind_some in Hv' as (v' & Hc & Hv').
      destruct (lookup V ret_id); [discriminate|]. injection Hv' as <-.
      pose proof (trans_exp_sound num rho G V e _ v Hok Hcan Et Hv) as Hs.
      pose proof (trans_exp_wf num rho G V Hok Hcan Hgood e _ v Et Hv) as W.
      destruct (ret_coerce_sound rho rt r0 v r1 v' Hs Ec Hc) as [Hs1 Hty].
      pose proof (ret_coerce_wf rt r0 r1 W Ec) as W1.
      pose proof (regroup_canon rho ret_id r1 v' Hs1 W1) as Hn. rewrite <- (regroup_value_type r1) in Hn.
      pose proof (regroup_value_sem rho _ _ Hs1) as Hs'.
      destruct (class_bind rho G V ret_id (regroup_value r1) v' Hok Hcan Hs' Hn) as [A B].
      + intros k rho1 Hag. rewrite regroup_value_type in Hag.
        destruct (class_den rho G V ret_id e r0 v (arg_names [ret_id] (fst r1)) k rho1 Hok Hcan Et Hv
                    (fun n Hn' => arg_names_prefix _ _ _ Hn') Hag (or_introl Cl)) as (w1 & D1 & T1 & B1).
        assert (E : w1 = v).
        { (* fresh: the value is the same, not only its k-th bit *)
          destruct (env_ok_shift rho rho1 G V ret_id (arg_names [ret_id] (fst r1)) Hok Hcan
                      (fun n Hn' => arg_names_prefix _ _ _ Hn') (fun j Hj => Hag j (or_introl Hj)))
            as (V1 & Hok1 & Hsame & _).
          assert (E1 : eval_exp V1 e = Some v).
          { rewrite <- Hv. apply eval_exp_fv. intros y Hy. apply Hsame. intros ->. exact (fresh_in_spec _ _ Cl Hy). }
          pose proof (trans_exp_sound num rho1 G V1 e r0 v Hok1 Hcan Et E1) as D. unfold sem in D. congruence. }
        subst w1. destruct (ret_coerce_sound rho1 rt r0 v r1 v' D1 Ec Hc) as [D2 _].
        pose proof (regroup_value_sem rho1 _ _ D2) as D2'.
        now rewrite (den_bit rho1 _ _ k D2'), (den_bit rho _ _ k Hs').
      + split; [exact A|split; [exact B|]]. apply env_good_bind; [exact Hgood|].
        rewrite regroup_value_type, Hty. exact Hrt.
    - destruct (trans_exp num G e); [|discriminate]. injection Ht as <- <-.
      apply option_map_some in Hv as (v & _ & ->). now repeat split.
    - discriminate.
  Qed.

  Theorem trans_body_sound2 : forall body rho G V rt ds G' V',
    env_ok num rho G V -> env_canon G -> env_good G -> ty_good rt = true ->
    body_guard2 num G rt body = true ->
    trans_body num G rt body = Some (ds, G') -> eval_body V rt body = Some V' ->
    env_ok num (run_defs rho (numbered num ds)) G' V' /\ env_canon G' /\ env_good G'.
  Proof.
    induction body as [|s body IH]; intros rho G V rt ds G' V' Hok Hcan Hgood Hrt Hg Ht Hv.
    - cbn in Ht, Hv. injection Ht as <- <-. injection Hv as <-. now repeat split.
    - cbn [trans_body eval_body body_guard2] in *.
      apply andb_true_iff in Hg as [Hg1 Hg2].
      apply obind_some in Ht as ([ds1 G1] & Ht1 & Ht). apply obind_some in Ht as ([ds2 G2] & Ht2 & Ht).
      cbn [fst snd] in *. injection Ht as <- <-. apply obind_some in Hv as (V1 & Hv1 & Hv2).
      rewrite Ht1 in Hg2. cbn [snd] in Hg2.
      destruct (trans_stmt_sound2 rho G V rt s ds1 G1 V1 Hok Hcan Hgood Hrt Hg1 Ht1 Hv1) as (Hok1 & Hcan1 & Hgood1).
      unfold numbered. rewrite map_app, run_defs_app. fold (numbered num ds1). fold (numbered num ds2).
      exact (IH _ _ _ _ _ _ _ Hok1 Hcan1 Hgood1 Hrt Hg2 Ht2 Hv2).
  Qed.
End Class.

(* a body all of whose statements are in the class needs no per-program condition *)
Lemma body_class_guard2 num : forall body G rt, forallb stmt_class body = true -> body_guard2 num G rt body = true.
Proof.
  induction body as [|s body IH]; intros G rt H; [reflexivity|]. cbn [forallb] in H. apply andb_true_iff in H as [H1 H2].
  cbn [body_guard2]. unfold stmt_guard2. rewrite H1. cbn [orb andb].
  destruct (trans_stmt num G rt s) as [dg|]; [now apply IH|reflexivity].
Qed.

Lemma body_guard_guard2 num : forall body G rt, body_guard num G rt body = true -> body_guard2 num G rt body = true.
Proof.
  induction body as [|s body IH]; intros G rt H; [reflexivity|]. unfold body_guard in H. cbn [body_guard_g] in H.
  apply andb_true_iff in H as [H1 H2]. cbn [body_guard2]. unfold stmt_guard2. rewrite H1, orb_true_r. cbn [andb].
  destruct (trans_stmt num G rt s) as [dg|]; [now apply IH|reflexivity].
Qed.

(* ================================================================== *)
(* a whole function                                                    *)
(* ================================================================== *)
(* the argument values are what the assignment spells on the argument bits *)
Definition args_encoded (num : sname -> nat) (rho : nat -> bool) (args : list (ident * ty)) (vs : list value) : Prop :=
  Forall2 (fun a v => decode (snd a) (map (rbit num rho) (arg_names [fst a] (snd a))) = Some v) args vs.

(* no statement assigns the reserved name _ret *)
Definition wf_body (body : list pstmt) : bool :=
  forallb (fun s => match s with SAssign x _ => negb (Nat.eqb x ret_id) | _ => true end) body.

Lemma arg_env_ok num rho args vs : args_encoded num rho args vs ->
  env_ok num rho (arg_env args) (combine (map fst args) vs).
Proof.
  induction 1 as [|[x t] v args vs Hd _ IH]; intros y ty bv Hy; [discriminate|].
  cbn [arg_env map combine lookup fst snd] in *. destruct (Nat.eqb x y).
  - injection Hy as <- <-. now exists v.
  - now apply IH.
Qed.

Lemma arg_env_canon args : env_canon (arg_env args).
Proof.
  induction args as [|[x t] args IH]; intros y ty bv Hy; [discriminate|].
  cbn [arg_env map lookup fst snd] in Hy. destruct (Nat.eqb_spec x y) as [->|].
  - now injection Hy as <- <-.
  - now apply IH.
Qed.

Definition dom_sub (V : venv) (G : env) : Prop :=
  forall x v, lookup V x = Some v -> exists b, lookup G x = Some b.

Lemma coerce_ret_type rt v v' : coerce_ret rt v = Some v' -> type_of v' = rt.
Proof.
  assert (Same : ty_eq (type_of v) rt = true -> v' = v -> type_of v' = rt).
  { intros E ->. now apply ty_eq_true. }
  destruct v as [b|w n|i f n|c|l]; destruct rt as [|r0|i0 f0| |l0]; cbn [coerce_ret];
    try (destruct (ty_eq _ _) eqn:E; [intros [= <-]; now apply Same|discriminate]).
  destruct (Nat.ltb_spec w r0); [now intros [= <-]|].
  destruct (Nat.ltb_spec r0 w); [now intros [= <-]|]. intros [= <-]. cbn. f_equal. lia.
Qed.

Lemma body_invariants num : forall body G V rt ds G' V',
  wf_body body = true -> dom_sub V G -> (forall v, lookup V ret_id = Some v -> type_of v = rt) ->
  trans_body num G rt body = Some (ds, G') -> eval_body V rt body = Some V' ->
  dom_sub V' G' /\ (forall v, lookup V' ret_id = Some v -> type_of v = rt).
Proof.
  induction body as [|s body IH]; intros G V rt ds G' V' Hwf Hdom Hret Ht Hv.
  - cbn in Ht, Hv. injection Ht as <- <-. injection Hv as <-. now split.
  - cbn [trans_body eval_body wf_body forallb] in *. apply andb_true_iff in Hwf as [Hw1 Hw2].
    apply obind_some in Ht as ([ds1 G1] & Ht1 & Ht). apply obind_some in Ht as ([ds2 G2] & Ht2 & Ht).
    cbn [fst snd] in *. injection Ht as <- <-. apply obind_some in Hv as (V1 & Hv1 & Hv2).
    assert (Step : dom_sub V1 G1 /\ (forall v, lookup V1 ret_id = Some v -> type_of v = rt)).
    { destruct s as [x e|e|e|]; cbn [trans_stmt eval_stmt] in Ht1, Hv1.
      - unfold trans_assign in Ht1. destruct (trans_exp num G e) as [r0|]; [|discriminate]. injection Ht1 as <- <-.
        apply option_map_some in Hv1 as (v & _ & ->). split.
        + intros y vy. rewrite !lookup_bind. destruct (Nat.eqb y x); [intros _; eauto|apply Hdom].
        + intros vy. rewrite lookup_bind. apply negb_true_iff in Hw1. rewrite Nat.eqb_sym in Hw1. rewrite Hw1. apply Hret.
      - unfold trans_return in Ht1. apply obind_some in Ht1 as (r0 & _ & Ht1). apply obind_some in Ht1 as (r1 & _ & Ht1).
        destruct (lookup G ret_id); [discriminate|]. injection Ht1 as <- <-.
        apply obind_some in Hv1 as (v & _ & Hv1). apply obind_some in Hv1 as (v' & Hc & Hv1).
        destruct (lookup V ret_id); [discriminate|]. injection Hv1 as <-. split.
        + intros y vy. rewrite !lookup_bind. destruct (Nat.eqb y ret_id); [intros _; eauto|apply Hdom].
        + intros vy. rewrite lookup_bind, Nat.eqb_refl. intros [= <-]. now apply coerce_ret_type in Hc.
      - destruct (trans_exp num G e); [|discriminate]. injection Ht1 as <- <-.
        apply option_map_some in Hv1 as (v & _ & ->). now split.
      - discriminate. }
    destruct Step as [D1 R1]. exact (IH _ _ _ _ _ _ Hw2 D1 R1 Ht2 Hv2).
Qed.

(* no argument is called _ret; every argument type is ty_good (no sized component of fewer than
   2 bits) *)
Definition wf_args (args : list (ident * ty)) : bool :=
  forallb (fun a => negb (Nat.eqb (fst a) ret_id)) args && forallb (fun a => ty_good (snd a)) args.

Lemma arg_env_good args : forallb (fun a : ident * ty => ty_good (snd a)) args = true -> env_good (arg_env args).
Proof.
  induction args as [|[x t] args IH]; intros H y ty bv Hy; [discriminate|].
  cbn [forallb snd] in H. apply andb_true_iff in H as [H1 H2].
  cbn [arg_env map lookup fst snd] in Hy. destruct (Nat.eqb x y).
  - now injection Hy as <- <-.
  - now apply (IH H2 y ty bv).
Qed.

Lemma lookup_combine_none args (vs : list value) x :
  forallb (fun a : ident * ty => negb (Nat.eqb (fst a) x)) args = true ->
  lookup (combine (map fst args) vs) x = None.
Proof.
  revert vs; induction args as [|[y t] args IH]; intros [|v vs] H; try reflexivity.
  cbn [forallb fst] in H. apply andb_true_iff in H as [H1 H2]. apply negb_true_iff in H1.
  cbn [map combine lookup fst]. rewrite H1. now apply IH.
Qed.

(* the definition list translate_ast returns, run in order on the argument bits, leaves on the
   declared return bits the value the reference evaluator returns *)
Theorem trans_fun_sound num rho args rt body vs lf v :
  (forall a b, num a = num b -> a = b) ->
  trans_fun num args rt body = Some lf -> eval_fun args rt body vs = Some v ->
  wf_args args = true -> ty_good rt = true -> wf_body body = true ->
  body_guard2 num (arg_env args) rt body = true ->
  args_encoded num rho args vs ->
  lf_ret lf = (rt, arg_names [ret_id] rt) /\
  decode rt (map (fun s => run_defs rho (numbered num (lf_defs lf)) (num s)) (arg_names [ret_id] rt)) = Some v.
Proof.
  intros Hinj Ht Hv Hwa Hgrt Hwf Hg Henc. unfold wf_args in Hwa. apply andb_true_iff in Hwa as [Hwa Hwt].
  unfold trans_fun in Ht.
  destruct (negb (distinct_ids (map fst args))); [discriminate|].
  apply option_map_some in Ht as ([ds G'] & Hb & ->). cbn [lf_ret lf_defs fst snd]. split; [reflexivity|].
  unfold eval_fun in Hv. destruct (negb (Nat.eqb (length args) (length vs))) eqn:Hlen; [discriminate|].
  destruct (negb (forallb _ (combine args vs))); [discriminate|].
  apply obind_some in Hv as (V' & Hev & Hret).
  destruct (trans_body_sound2 num Hinj body rho _ _ rt ds G' V' (arg_env_ok num rho args vs Henc) (arg_env_canon args)
              (arg_env_good args Hwt) Hgrt Hg Hb Hev) as (Hok & Hcan & _).
  assert (Hdom0 : dom_sub (combine (map fst args) vs) (arg_env args)).
  { apply negb_false_iff, Nat.eqb_eq in Hlen. clear -Hlen. revert vs Hlen.
    induction args as [|[x t] args IH]; intros [|v0 vs] Hlen y vy Hy; try discriminate.
    cbn [arg_env map combine lookup fst snd] in *. destruct (Nat.eqb x y); [eauto|].
    apply (IH vs (f_equal pred Hlen) y vy Hy). }
  assert (Hret0 : forall v0, lookup (combine (map fst args) vs) ret_id = Some v0 -> type_of v0 = rt).
  { intros v0 H0. rewrite (lookup_combine_none args vs ret_id Hwa) in H0. discriminate. }
  destruct (body_invariants num body _ _ rt ds G' V' Hwf Hdom0 Hret0 Hb Hev) as [Hdom Hrt].
  destruct (Hdom _ _ Hret) as ([t bv] & HG). destruct (Hok _ _ _ HG) as (v0 & Hv0 & Hd).
  rewrite Hret in Hv0. injection Hv0 as <-.
  pose proof (Hcan _ _ _ HG) as ->. destruct (decode_type _ _ _ Hd) as [Ty _].
  rewrite (Hrt _ Hret) in Ty. subst t. exact Hd.
Qed.

(* ... and when every statement is in the syntactic class (target not read by its right-hand side,
   or read only as the unchanged branch of if-expressions), NO per-program condition is left *)
Corollary trans_fun_sound_class num rho args rt body vs lf v :
  (forall a b, num a = num b -> a = b) ->
  trans_fun num args rt body = Some lf -> eval_fun args rt body vs = Some v ->
  wf_args args = true -> ty_good rt = true -> wf_body body = true ->
  forallb stmt_class body = true ->
  args_encoded num rho args vs ->
  lf_ret lf = (rt, arg_names [ret_id] rt) /\
  decode rt (map (fun s => run_defs rho (numbered num (lf_defs lf)) (num s)) (arg_names [ret_id] rt)) = Some v.
Proof.
  intros Hinj Ht Hv Hwa Hgrt Hwf Hcl Henc.
  exact (trans_fun_sound num rho args rt body vs lf v Hinj Ht Hv Hwa Hgrt Hwf
           (body_class_guard2 num body (arg_env args) rt Hcl) Henc).
Qed.

(* ================================================================== *)
(* what the translator rejects                                         *)
(* ================================================================== *)
Lemma reject_negative_int num G z : (z < 0)%Z -> trans_exp num G (EConst (CInt z)) = None.
Proof. intros H. apply Z.ltb_lt in H. cbn [trans_exp trans_const]. now rewrite H. Qed.

Lemma reject_negative_float num G x : trans_exp num G (EConst (CFloat true x)) = None.
Proof. reflexivity. Qed.

Lemma reject_big_int num G z : (65536 <= z)%Z -> trans_exp num G (EConst (CInt z)) = None.
Proof.
  intros H. cbn [trans_exp trans_const]. destruct (Z.ltb_spec z 0); [reflexivity|].
  cbn [const_to_qtype]. destruct (Z.ltb_spec z 0); [reflexivity|].
  assert (Hn : 65536 <= Z.to_N z) by lia.
  assert (F : forall w, 2 ^ N.of_nat w <= 65536 -> (Z.to_N z <? 2 ^ N.of_nat w) = false)
    by (intros w Hw; apply N.ltb_ge; lia).
  unfold const_int, const_to_qtype_int, const_widths. cbn [const_int_search].
  rewrite !F by (vm_compute; discriminate). reflexivity.
Qed.

Lemma reject_unbound num (G : env) x p : lookup G x = None ->
  trans_exp num G (EName x) = None /\ trans_exp num G (ESub x p) = None.
Proof.
  intros H. cbn [trans_exp]. unfold trans_sub. rewrite H. split; [reflexivity|now destruct p].
Qed.

Lemma reject_subscript_range num (G : env) x w bv i q : lookup G x = Some (TQint w, bv) -> (w <= i)%nat ->
  trans_exp num G (ESub x (i :: q)) = None.
Proof.
  intros H Hi. cbn [trans_exp]. unfold trans_sub. rewrite H. cbn [sub_type ty_size].
  destruct (Nat.ltb_spec i w); [lia|reflexivity].
Qed.

Lemma reject_bool_order op a b : op <> CoEq -> op <> CoNe -> trans_cmp op (TBool, a) (TBool, b) = None.
Proof.
  intros H1 H2. unfold trans_cmp. cbn [fst snd]. destruct (leaf a); [|reflexivity]. cbn [obind].
  destruct (leaf b); [|reflexivity]. cbn [obind]. destruct op; try reflexivity; [now destruct H1|now destruct H2].
Qed.

Lemma reject_not_on_sized op r : op = UoNot -> is_qtype (fst r) = true -> trans_un op r = None.
Proof. intros -> H. unfold trans_un. now destruct (fst r). Qed.

(* the only operation between a Qint and a Qfixed is a multiplication *)
Lemma reject_int_fixed_mix op sh l r :
  (is_qint (fst l) && is_qfixed (fst r)) || (is_qfixed (fst l) && is_qint (fst r)) = true ->
  op <> AoMul -> trans_bin op sh l r = None.
Proof.
  intros H Hop. unfold trans_bin. rewrite H.
  assert (B : is_bool (fst l) && is_bool (fst r) = false) by (destruct (fst l), (fst r); try reflexivity; discriminate).
  rewrite B. destruct op; try reflexivity. now destruct Hop.
Qed.

(* a shift whose amount is not a constant *)
Lemma reject_shift_nonconst op l r : op = AoShl \/ op = AoShr -> trans_bin op None l r = None.
Proof.
  intros H. unfold trans_bin.
  destruct (is_bool (fst l) && is_bool (fst r));
    destruct ((is_qint (fst l) && is_qfixed (fst r)) || (is_qfixed (fst l) && is_qint (fst r)));
    destruct (is_qtype (fst l)); destruct (to_texp l); cbn [obind];
    destruct H as [-> | ->]; reflexivity.
Qed.

(* a returned value of another type with the SAME number of bits, or a bool / tuple where a sized
   type is declared (and conversely) *)
Lemma reject_return_type rt r : ty_eq (fst r) rt = false ->
  (is_qtype (fst r) && is_qtype rt = false \/ bit_size (fst r) = bit_size rt) ->
  ret_coerce rt r = None.
Proof.
  intros E H. unfold ret_coerce. rewrite E. destruct H as [H|H].
  - destruct (is_qtype (fst r)), (is_qtype rt); try discriminate; reflexivity.
  - rewrite H, Nat.ltb_irrefl, !andb_false_r. reflexivity.
Qed.

Lemma reject_raise num G rt : trans_exp num G ERaise = None /\ trans_stmt num G rt SRaise = None.
Proof. now split. Qed.

(* ================================================================== *)
(* where the faithful model makes the full-strength statements false   *)
(* ================================================================== *)
(* an injective numbering of bit names exists: [x; i; j] |-> 2^x (2 (2^i (2 (2^j) + 1)) + 1) *)
Fixpoint enc (l : list nat) : nat :=
  match l with
  | [] => 0
  | x :: r => 2 ^ x * (2 * enc r + 1)
  end%nat.

Lemma pow2_odd_inj : forall x y a b, (2 ^ x * (2 * a + 1) = 2 ^ y * (2 * b + 1))%nat -> x = y /\ a = b.
Proof.
  induction x as [|x IH]; intros [|y] a b H.
  - cbn [Nat.pow] in H. split; [reflexivity|lia].
  - exfalso. rewrite Nat.pow_succ_r', <- Nat.mul_assoc in H. cbn [Nat.pow] in H.
    generalize dependent (2 ^ y * (2 * b + 1))%nat. intros m H. lia.
  - exfalso. rewrite Nat.pow_succ_r', <- Nat.mul_assoc in H. cbn [Nat.pow] in H.
    generalize dependent (2 ^ x * (2 * a + 1))%nat. intros m H. lia.
  - rewrite !Nat.pow_succ_r', <- !Nat.mul_assoc in H.
    destruct (IH y a b) as [-> ->]; [lia|now split].
Qed.

Lemma enc_inj : forall a b, enc a = enc b -> a = b.
Proof.
  induction a as [|x a IH]; intros [|y b] H; cbn [enc] in H; try reflexivity.
  - exfalso. pose proof (Nat.pow_nonzero 2 y ltac:(lia)). nia.
  - exfalso. pose proof (Nat.pow_nonzero 2 x ltac:(lia)). nia.
  - apply pow2_odd_inj in H as [-> H]. f_equal. now apply IH.
Qed.

(* the assignment that is true exactly on the listed bit names *)
Definition rho_of (ones : list sname) : nat -> bool := fun k => existsb (fun s => Nat.eqb k (enc s)) ones.

Definition tab_num (tab : list (sname * nat)) (d : nat) : sname -> nat :=
  fun s => match find (fun p => sname_eqb (fst p) s) tab with Some p => snd p | None => d end.

(* (1) FIXED in /repo (fa1d0be): a subscript selecting a tuple-typed element is the flat list of
   the element's bits: the former counterexample is an instance of trans_exp_sound *)
Definition ex_sub_G : env := arg_env [(1%nat, TTuple [TTuple [TBool; TQint 2]; TBool])].
Definition ex_sub_V : venv := [(1%nat, VT [VT [VB true; VI 2 1]; VB false])].
Definition ex_sub_num := tab_num [([1;0;0], 0); ([1;0;1;0], 1); ([1;0;1;1], 2); ([1;1], 3)]%nat 9.
Definition ex_sub_rho : nat -> bool := fun k => Nat.eqb k 0 || Nat.eqb k 1.

Lemma ex_sub_env : env_ok ex_sub_num ex_sub_rho ex_sub_G ex_sub_V /\ env_canon ex_sub_G.
Proof.
  split; [|apply arg_env_canon].
  apply (arg_env_ok ex_sub_num ex_sub_rho [(1%nat, TTuple [TTuple [TBool; TQint 2]; TBool])]
                    [VT [VT [VB true; VI 2 1]; VB false]]).
  constructor; [vm_compute; reflexivity|constructor].
Qed.

Lemma subscript_of_tuple_sound num rho G V x p r v :
  env_ok num rho G V -> env_canon G ->
  trans_exp num G (ESub x p) = Some r -> eval_exp V (ESub x p) = Some v ->
  den rho r = Some v /\ type_of v = fst r.
Proof.
  intros H1 H2 H4 H5. pose proof (trans_exp_sound num rho G V _ r v H1 H2 H4 H5) as H.
  split; [exact H|]. now apply decode_type in H.
Qed.

(* (1') FIXED in /repo (fccfe9a): a subscript that selects an EMPTY tuple component has no bits
   ("u[0]" of u: Tuple[Tuple[()], bool] was ONE fabricated symbol): the former counterexample holds *)
Lemma subscript_of_empty_ex :
  let args := [(1%nat, TTuple [TTuple []; TBool])] in
  env_ok enc (fun _ => true) (arg_env args) [(1%nat, VT [VT []; VB true])] /\ env_canon (arg_env args)
  /\ trans_exp enc (arg_env args) (ESub 1%nat [0%nat]) = Some (TTuple [], Nd [])
  /\ eval_exp [(1%nat, VT [VT []; VB true])] (ESub 1%nat [0%nat]) = Some (VT [])
  /\ den (fun _ => true) (TTuple [], Nd []) = Some (VT []).
Proof.
  intros args. refine (conj _ (conj (arg_env_canon args) (conj eq_refl (conj eq_refl eq_refl)))).
  apply (arg_env_ok enc (fun _ => true) args [VT [VT []; VB true]]). constructor; [reflexivity|constructor].
Qed.

(* (2) FIXED in /repo (87c4060): a tuple-typed value is bound with the bit names of its type.
   `d = a; return d[1]` with a: Tuple[Qint[2], bool]: inside the guards, for EVERY argument value *)
Definition ex_copy_args : list (ident * ty) := [(1%nat, TTuple [TQint 2; TBool])].
Definition ex_copy_body : list pstmt := [SAssign 2%nat (EName 1%nat); SReturn (ESub 2%nat [1%nat])].
Lemma tuple_copy_sound rho vs v :
  args_encoded enc rho ex_copy_args vs -> eval_fun ex_copy_args TBool ex_copy_body vs = Some v ->
  exists lf, trans_fun enc ex_copy_args TBool ex_copy_body = Some lf /\
    map fst (lf_defs lf) = [[2; 0; 0]; [2; 0; 1]; [2; 1]; [0]]%nat /\
    decode TBool (map (fun s => run_defs rho (numbered enc (lf_defs lf)) (enc s))
                      (arg_names [ret_id] TBool)) = Some v.
Proof.
  intros Henc Hev.
  destruct (trans_fun enc ex_copy_args TBool ex_copy_body) as [lf|] eqn:E; [|vm_compute in E; discriminate].
  exists lf. split; [reflexivity|]. split.
  - vm_compute in E. injection E as <-. reflexivity.
  - refine (proj2 (trans_fun_sound enc rho ex_copy_args TBool ex_copy_body vs lf v enc_inj E Hev _ _ _ _ Henc));
      vm_compute; reflexivity.
Qed.

(* (2') the remaining side condition seq_ok does NOT follow from translate_statement: given the
   UN-normalised `a = a + 1; return a` (a: Qint[2]) it emits  a.0 := ~a.0 ; a.1 := a.0 ^ a.1,  whose
   second definition reads the NEW a.0 when the list is run in order.  (qlasskit.ast2ast never hands
   this over: it rewrites a self-referencing assignment through a temporary `__a`.) *)
Definition ex_self_args : list (ident * ty) := [(1%nat, TQint 2)].
Definition ex_self_body : list pstmt :=
  [SAssign 1%nat (EBin AoAdd (EName 1%nat) (EConst (CInt 1))); SReturn (EName 1%nat)].

Lemma seq_ok_needed :
  exists rho vs lf v,
    trans_fun enc ex_self_args (TQint 2) ex_self_body = Some lf /\
    eval_fun ex_self_args (TQint 2) ex_self_body vs = Some v /\
    wf_args ex_self_args = true /\ ty_good (TQint 2) = true /\ wf_body ex_self_body = true /\
    args_encoded enc rho ex_self_args vs /\
    body_guard2 enc (arg_env ex_self_args) (TQint 2) ex_self_body = false /\
    decode (TQint 2) (map (fun s => run_defs rho (numbered enc (lf_defs lf)) (enc s)) (arg_names [ret_id] (TQint 2)))
      <> Some v.
Proof.
  exists (rho_of [[1; 0]]%nat), [VI 2 1]. do 2 eexists.
  refine (conj _ (conj _ (conj _ (conj _ (conj _ (conj _ (conj _ _))))))); try (vm_compute; reflexivity).
  - constructor; [vm_compute; reflexivity|constructor].
  - vm_compute. discriminate.
Qed.

(* (3) "an accepted program has a meaning" is false: operands of different kinds are combined on
   their raw bit lists (Qint ^ Qchar), a value of another kind is cropped to the declared return
   type (`return 'a'` where Qint[2] is declared) *)
Lemma accepted_without_meaning :
  (exists num rho G V e r, env_ok num rho G V /\ env_canon G /\
     trans_exp num G e = Some r /\ eval_exp V e = None)
  /\ (exists num args rt body lf, trans_fun num args rt body = Some lf /\
        forall vs, eval_fun args rt body vs = None).
Proof.
  split.
  - set (args := [(1%nat, TQint 8); (2%nat, TQchar)]).
    set (num := fun s : sname => match s with [1; i] => i | [2; i] => 8 + i | _ => 99 end%nat).
    exists num, (fun _ => false), (arg_env args), [(1%nat, VI 8 0); (2%nat, VC 0)],
           (EBin AoXor (EName 1%nat) (EName 2%nat)). eexists.
    refine (conj _ (conj (arg_env_canon args) (conj _ eq_refl))).
    + apply (arg_env_ok num (fun _ => false) args [VI 8 0; VC 0]).
      constructor; [vm_compute; reflexivity|]. constructor; [vm_compute; reflexivity|constructor].
    + vm_compute. reflexivity.
  - exists (fun _ => 0%nat), [(1%nat, TQint 2)], (TQint 2), [SReturn (EConst (CStr [97]))]. eexists.
    split; [vm_compute; reflexivity|]. intros vs. unfold eval_fun.
    destruct (negb _); [reflexivity|]. destruct (negb _); reflexivity.
Qed.


(* ================================================================== *)
(* accepted expressions of the bool / integer fragment have a meaning  *)
(* ================================================================== *)
Definition ib_ty (t : ty) : bool :=
  match t with TBool => true | TQint w => (0 <? w)%nat | _ => false end.
Definition ib_env (G : env) : Prop := forall x t bv, lookup G x = Some (t, bv) -> ib_ty t = true.

(* names, and / or / not / ~, if-expressions, bool and int constants, comparisons,
   + - * & | ^, shifts by an integer constant *)
Fixpoint frag (e : pexp) : bool :=
  match e with
  | EName _ => true
  | EBoolOp _ l => forallb frag l
  | EUn _ a => frag a
  | EIf c t f => frag c && frag t && frag f
  | EConst (CBool _) | EConst (CInt _) => true
  | ECmp _ a b => frag a && frag b
  | EBin op a b =>
      match op with
      | AoMod | AoOther => false
      | AoShl | AoShr => frag a && match b with EConst (CInt _) => true | _ => false end
      | _ => frag a && frag b
      end
  | _ => false
  end.

Lemma ib_kind v : ib_ty (type_of v) = true -> (exists b, v = VB b) \/ (exists w n, v = VI w n /\ (0 < w)%nat).
Proof.
  destruct v as [b|w n| | |]; cbn; try discriminate; intros H; [left; eauto|right].
  exists w, n. split; [reflexivity|now apply Nat.ltb_lt].
Qed.

Lemma const_width_pos n w : const_width n = Some w -> (0 < w)%nat.
Proof.
  unfold const_width. intros H. apply find_some in H as [Hin _]. cbn [In] in Hin.
  repeat (destruct Hin as [<-|Hin]; [lia|]). destruct Hin.
Qed.

Section Total.
  Variable num : sname -> nat.
  Variable rho : nat -> bool.
  Variables (G : env) (V : venv).
  Hypothesis Hok : env_ok num rho G V.
  Hypothesis Hcan : env_canon G.
  Hypothesis Hib : ib_env G.

  Definition total_at (e : pexp) : Prop :=
    frag e = true -> forall r, trans_exp num G e = Some r ->
    exists v, eval_exp V e = Some v /\ ib_ty (type_of v) = true.

  Lemma total_sem e r v : frag e = true -> trans_exp num G e = Some r -> eval_exp V e = Some v -> sem rho r v.
  Proof. intros F Ht Hv. exact (trans_exp_sound num rho G V e r v Hok Hcan Ht Hv). Qed.

  Lemma total_list l : Forall total_at l -> forallb frag l = true ->
    forall rs, trans_list num G l = Some rs ->
    exists vs, eval_list V l = Some vs /\ Forall2 (sem rho) rs vs.
  Proof.
    induction 1 as [|e l He _ IH]; intros Hf rs Ht; cbn [trans_list eval_list] in *.
    - injection Ht as <-. exists []. split; [reflexivity|constructor].
    - cbn [forallb] in Hf. apply andb_true_iff in Hf as [F1 F2].
      destruct (trans_exp num G e) as [a|] eqn:Ea; [|discriminate].
      destruct (trans_list num G l) as [b|] eqn:Eb; [|discriminate]. injection Ht as <-.
      destruct (He F1 _ Ea) as (v & Hv & _). destruct (IH F2 _ eq_refl) as (vs & Hvs & HF).
      rewrite Hv, Hvs. exists (v :: vs). split; [reflexivity|]. constructor; [|exact HF].
      now apply (total_sem e).
  Qed.

  Lemma boolop_progress op rs vs r : Forall2 (sem rho) rs vs -> trans_boolop op rs = Some r ->
    exists v, eval_boolop op vs = Some v /\ ib_ty (type_of v) = true.
  Proof.
    intros HF Ht. unfold trans_boolop in Ht. destruct (all_bool rs) eqn:Hb; [|discriminate].
    apply obind_some in Ht as (es & Hl & Ht). apply option_map_some in Ht as (e & Hu & _).
    assert (A : exists bs, all_vb vs = Some bs).
    { clear Hl Hu. induction HF as [|r0 v0 rs vs Hs _ IH]; [now exists []|].
      unfold all_bool in Hb. cbn [forallb] in Hb. apply andb_true_iff in Hb as [B1 B2].
      destruct (IH B2) as (bs & Hbs). pose proof (sem_type _ _ _ Hs) as T.
      destruct (fst r0); try discriminate. destruct v0; try discriminate. cbn [all_vb]. rewrite Hbs. now eexists. }
    destruct A as (bs & Hbs). unfold eval_boolop. destruct vs as [|v0 vs].
    - inversion HF; subst. cbn in Hl. injection Hl as <-. discriminate.
    - rewrite Hbs. cbn [option_map]. eexists. split; reflexivity.
  Qed.

  Lemma un_progress op r v r' : sem rho r v -> ib_ty (type_of v) = true -> trans_un op r = Some r' ->
    exists v', eval_un op v = Some v' /\ ib_ty (type_of v') = true.
  Proof.
    intros Hs Hi Ht. pose proof (sem_type _ _ _ Hs) as T.
    destruct op; cbn [trans_un] in Ht; [| |discriminate].
    - destruct (fst r); try discriminate. destruct v; try discriminate. cbn. eexists. split; reflexivity.
    - destruct (ib_kind v Hi) as [(b & ->)|(w & n & -> & Hw)].
      + cbn [type_of] in T. rewrite <- T in Ht. discriminate.
      + cbn. eexists. split; [reflexivity|]. cbn [type_of ib_ty]. now apply Nat.ltb_lt.
  Qed.

  Lemma if_progress c t f vc vt vf r :
    sem rho c vc -> sem rho t vt -> sem rho f vf ->
    ib_ty (type_of vt) = true -> ib_ty (type_of vf) = true -> trans_if c t f = Some r ->
    exists v, eval_if vc vt vf = Some v /\ ib_ty (type_of v) = true.
  Proof.
    intros Hc Ht Hf It If_ Htr. unfold trans_if in Htr.
    pose proof (sem_type _ _ _ Hc) as Tc. pose proof (sem_type _ _ _ Ht) as Tt. pose proof (sem_type _ _ _ Hf) as Tf.
    destruct (fst c) eqn:Ec; try discriminate. destruct vc as [b| | | |]; try discriminate. cbn [eval_if].
    destruct (ty_eq (type_of vt) (type_of vf)) eqn:E.
    - eexists. split; [reflexivity|]. now destruct b.
    - apply obind_some in Htr as (cb & _ & Htr). apply obind_some in Htr as ([t' f'] & Hfill & _).
      rewrite <- Tt, <- Tf, E in Hfill.
      destruct (ib_kind vt It) as [(bt & ->)|(wt & nt & -> & Hwt)];
        destruct (ib_kind vf If_) as [(bf & ->)|(wf & nf & -> & Hwf)]; cbn [type_of is_qtype andb] in Hfill;
        try discriminate.
      eexists. split; [reflexivity|]. cbn [type_of ib_ty]. apply Nat.ltb_lt. lia.
  Qed.

  Lemma cmp_progress op l r vl vr res :
    sem rho l vl -> sem rho r vr -> ib_ty (type_of vl) = true -> ib_ty (type_of vr) = true ->
    trans_cmp op l r = Some res -> exists v, eval_cmp op vl vr = Some v /\ ib_ty (type_of v) = true.
  Proof.
    intros Hl Hr Il Ir Ht. pose proof (sem_type _ _ _ Hl) as Tl. pose proof (sem_type _ _ _ Hr) as Tr.
    destruct l as [tl trl], r as [tr trr]. cbn [fst] in Tl, Tr. subst tl tr. unfold trans_cmp in Ht.
    destruct (ib_kind vl Il) as [(bl & ->)|(wl & nl & -> & Hwl)];
      destruct (ib_kind vr Ir) as [(br & ->)|(wr & nr & -> & Hwr)]; cbn [fst snd type_of] in Ht.
    - apply obind_some in Ht as (a & _ & Ht). apply obind_some in Ht as (b & _ & Ht).
      destruct op; try discriminate; cbn; eexists; split; reflexivity.
    - cbn [is_qtype andb] in Ht. discriminate.
    - cbn [is_qtype comparable is_qint andb] in Ht. discriminate.
    - cbn [is_qtype comparable is_qint andb] in Ht. apply obind_some in Ht as (o & Ho & _).
      destruct op; try discriminate; cbn; eexists; split; reflexivity.
  Qed.

  Lemma mul_sizing_pos k : (0 < mul_sizing k)%nat.
  Proof. unfold mul_sizing. repeat (destruct (_ <=? _)%nat; [lia|]). lia. Qed.

  Lemma bin_progress op sh l r vl vr res :
    sem rho l vl -> sem rho r vr -> ib_ty (type_of vl) = true -> ib_ty (type_of vr) = true ->
    op <> AoMod -> (op = AoShl \/ op = AoShr -> exists w n, vr = VI w n) ->
    trans_bin op sh l r = Some res ->
    exists v, eval_bin op sh vl vr = Some v /\ ib_ty (type_of v) = true.
  Proof.
    intros Hl Hr Il Ir Hop Hsh Ht. pose proof (sem_type _ _ _ Hl) as Tl. pose proof (sem_type _ _ _ Hr) as Tr.
    destruct l as [tl trl], r as [tr trr]. cbn [fst] in Tl, Tr. subst tl tr. unfold trans_bin in Ht.
    destruct (ib_kind vl Il) as [(bl & ->)|(wl & nl & -> & Hwl)];
      destruct (ib_kind vr Ir) as [(br & ->)|(wr & nr & -> & Hwr)];
      cbn [fst snd type_of is_bool is_qint is_qfixed is_qtype andb orb] in Ht.
    - destruct op; try discriminate; cbn; eexists; split; reflexivity.
    - discriminate.
    - exfalso. apply obind_some in Ht as (lt & _ & Ht).
      assert (Sh : op <> AoShl /\ op <> AoShr).
      { split; intros ->; [destruct (Hsh (or_introl eq_refl)) as (w & n & E)|destruct (Hsh (or_intror eq_refl)) as (w & n & E)];
          discriminate. }
      destruct Sh as [S1 S2].
      destruct (to_texp (TBool, trr)) as [[T rb]|] eqn:E.
      + destruct (to_texp_some _ _ E) as [Trt _]. cbn [fst] in Trt. subst T. cbn [obind] in Ht.
        destruct op; try congruence; cbn [type_binop] in Ht;
          unfold qint_add, qint_sub, qint_mul, qint_bitwise_xor, qint_bitwise_or, qint_bitwise, guard2 in Ht;
          cbn [fst is_qtype] in Ht; rewrite ?andb_false_r in Ht; discriminate.
      + destruct op; try congruence; discriminate.
    - apply obind_some in Ht as (lt & _ & Ht).
      destruct op; try congruence; cbn [eval_bin].
      + eexists. split; [reflexivity|]. cbn [type_of ib_ty]. apply Nat.ltb_lt. lia.
      + eexists. split; [reflexivity|]. cbn [type_of ib_ty]. apply Nat.ltb_lt. lia.
      + apply Nat.ltb_lt in Hwl, Hwr. rewrite Hwl, Hwr. cbn [andb]. eexists. split; [reflexivity|].
        cbn [type_of ib_ty]. apply Nat.ltb_lt. apply mul_sizing_pos.
      + eexists. split; [reflexivity|]. cbn [type_of ib_ty]. apply Nat.ltb_lt. lia.
      + eexists. split; [reflexivity|]. cbn [type_of ib_ty]. apply Nat.ltb_lt. lia.
      + eexists. split; [reflexivity|]. cbn [type_of ib_ty]. apply Nat.ltb_lt. lia.
      + destruct sh as [[k|]|]; try discriminate. eexists. split; [reflexivity|]. cbn [type_of ib_ty]. now apply Nat.ltb_lt.
      + destruct sh as [[k|]|]; try discriminate. eexists. split; [reflexivity|]. cbn [type_of ib_ty]. now apply Nat.ltb_lt.
  Qed.

  Theorem trans_exp_total_at : forall e, total_at e.
  Proof.
    induction e as [x|x p|op l IH|op a IHa|c t f IHc IHt IHf|c|l|l IH|op a b IHa IHb|op a b IHa IHb|t c|a IHa|a IHa|]
      using pexp_ind2; intros F r Ht; cbn [frag] in F; try discriminate.
    - cbn [trans_exp] in Ht. cbn [eval_exp]. destruct (lookup G x) as [[t bv]|] eqn:E; [|discriminate].
      destruct (Hok _ _ _ E) as (v & Hv & Hd). exists v. split; [exact Hv|].
      destruct (decode_type _ _ _ Hd) as [T _]. rewrite T. exact (Hib _ _ _ E).
    - change (trans_exp num G (EBoolOp op l)) with (obind (trans_list num G l) (trans_boolop op)) in Ht.
      change (eval_exp V (EBoolOp op l)) with (obind (eval_list V l) (eval_boolop op)).
      apply obind_some in Ht as (rs & Hrs & Ht). destruct (total_list l IH F rs Hrs) as (vs & Hvs & HF).
      rewrite Hvs. cbn [obind]. exact (boolop_progress op rs vs r HF Ht).
    - cbn [trans_exp] in Ht. cbn [eval_exp]. apply obind_some in Ht as (ra & Hra & Ht).
      destruct (IHa F _ Hra) as (va & Hva & Ia). rewrite Hva. cbn [obind].
      exact (un_progress op ra va r (total_sem a ra va F Hra Hva) Ia Ht).
    - apply andb_true_iff in F as [F F3]. apply andb_true_iff in F as [F1 F2].
      cbn [trans_exp] in Ht. cbn [eval_exp].
      apply obind_some in Ht as (rc & Hrc & Ht). apply obind_some in Ht as (rt & Hrt & Ht).
      apply obind_some in Ht as (rf & Hrf & Ht).
      destruct (IHc F1 _ Hrc) as (vc & Hvc & _). destruct (IHt F2 _ Hrt) as (vt & Hvt & It).
      destruct (IHf F3 _ Hrf) as (vf & Hvf & If_). rewrite Hvc, Hvt, Hvf. cbn [obind].
      exact (if_progress rc rt rf vc vt vf r (total_sem c _ _ F1 Hrc Hvc) (total_sem t _ _ F2 Hrt Hvt)
               (total_sem f _ _ F3 Hrf Hvf) It If_ Ht).
    - cbn [trans_exp] in Ht. cbn [eval_exp]. destruct c as [b|z| | |]; try discriminate.
      + exists (VB b). now split.
      + cbn [trans_const] in Ht. cbn [eval_const]. destruct (z <? 0)%Z; [discriminate|].
        apply lift_some in Ht as (te & Ht & _). cbn [const_to_qtype] in Ht. destruct (z <? 0)%Z; [discriminate|].
        unfold const_int, const_to_qtype_int in Ht.
        destruct (const_int_search const_widths (Z.to_N z)) as [[w bits]|] eqn:E; [|discriminate].
        apply const_int_search_find in E as [Ef _]. unfold const_width. unfold const_widths in Ef. rewrite Ef.
        cbn [option_map]. eexists. split; [reflexivity|]. cbn [type_of ib_ty]. apply Nat.ltb_lt.
        apply (const_width_pos (Z.to_N z)). exact Ef.
    - apply andb_true_iff in F as [F1 F2]. cbn [trans_exp] in Ht. cbn [eval_exp].
      apply obind_some in Ht as (ra & Hra & Ht). apply obind_some in Ht as (rb & Hrb & Ht).
      destruct (IHa F1 _ Hra) as (va & Hva & Ia). destruct (IHb F2 _ Hrb) as (vb & Hvb & Ib).
      rewrite Hva, Hvb. cbn [obind].
      exact (cmp_progress op ra rb va vb r (total_sem a _ _ F1 Hra Hva) (total_sem b _ _ F2 Hrb Hvb) Ia Ib Ht).
    - assert (F' : frag a = true /\ frag b = true /\ op <> AoMod
                   /\ (op = AoShl \/ op = AoShr -> exists z, b = EConst (CInt z))).
      { destruct op; try discriminate; apply andb_true_iff in F as [F1 F2];
          try (repeat split; try assumption; try discriminate; intros [E|E]; discriminate);
          destruct b as [| | | | |[ |z| | | ]| | | | | | | |]; try discriminate;
          (repeat split; try assumption; try discriminate; try reflexivity); intros _; now exists z. }
      destruct F' as (F1 & F2 & Hop & Hsh).
      cbn [trans_exp] in Ht. cbn [eval_exp].
      apply obind_some in Ht as (ra & Hra & Ht). apply obind_some in Ht as (rb & Hrb & Ht).
      destruct (IHa F1 _ Hra) as (va & Hva & Ia). destruct (IHb F2 _ Hrb) as (vb & Hvb & Ib).
      rewrite Hva, Hvb. cbn [obind].
      refine (bin_progress op _ ra rb va vb r (total_sem a _ _ F1 Hra Hva) (total_sem b _ _ F2 Hrb Hvb) Ia Ib Hop _ Ht).
      intros Hs. destruct (Hsh Hs) as (z & ->). cbn [eval_exp eval_const] in Hvb.
      destruct (z <? 0)%Z; [discriminate|]. apply option_map_some in Hvb as (w & _ & ->). now eexists; eexists.
  Qed.
End Total.

(* an accepted expression of the fragment has a value, and denotes it *)
Theorem trans_exp_total num rho G V e r :
  env_ok num rho G V -> env_canon G -> ib_env G -> frag e = true -> trans_exp num G e = Some r ->
  exists v, eval_exp V e = Some v /\ den rho r = Some v.
Proof.
  intros Hok Hcan Hib F Ht.
  destruct (trans_exp_total_at num rho G V Hok Hcan Hib e F r Ht) as (v & Hv & _).
  exists v. split; [exact Hv|]. exact (trans_exp_sound num rho G V e r v Hok Hcan Ht Hv).
Qed.

Lemma arg_env_ib args : forallb (fun a : ident * ty => ib_ty (snd a)) args = true -> ib_env (arg_env args).
Proof.
  induction args as [|[x t] args IH]; intros H y ty bv Hy; [discriminate|].
  cbn [forallb snd] in H. apply andb_true_iff in H as [H1 H2].
  cbn [arg_env map lookup fst snd] in Hy. destruct (Nat.eqb x y).
  - now injection Hy as <- <-.
  - now apply (IH H2 y ty bv).
Qed.

(* ================================================================== *)
(* statements collected for Prop_C01_texp.v                            *)
(* ================================================================== *)
Lemma trans_exp_type num rho G V e r v :
  env_ok num rho G V -> env_canon G -> env_good G ->
  trans_exp num G e = Some r -> eval_exp V e = Some v ->
  type_of v = fst r /\ length (flat (snd r)) = ty_size (fst r) /\ wf_res r /\ ty_good (fst r) = true.
Proof.
  intros H1 H2 H3 H4 H5.
  pose proof (trans_exp_sound num rho G V e r v H1 H2 H4 H5) as H.
  apply decode_type in H. rewrite map_length in H. destruct H as [A B].
  repeat split; try assumption; [exact (trans_exp_wf num rho G V H1 H2 H3 e r v H4 H5)|].
  rewrite <- A. exact (trans_exp_good num rho G V H1 H2 H3 e r v H4 H5).
Qed.

Lemma rejects_constants num G :
  (forall z, (z < 0)%Z -> trans_exp num G (EConst (CInt z)) = None)
  /\ (forall x, trans_exp num G (EConst (CFloat true x)) = None)
  /\ (forall z, (65536 <= z)%Z -> trans_exp num G (EConst (CInt z)) = None).
Proof.
  split; [|split].
  - intros z. apply reject_negative_int.
  - intros x. apply reject_negative_float.
  - intros z. apply reject_big_int.
Qed.

Lemma rejects_names num (G : env) x :
  (lookup G x = None -> forall p, trans_exp num G (EName x) = None /\ trans_exp num G (ESub x p) = None)
  /\ (forall w bv i q, lookup G x = Some (TQint w, bv) -> (w <= i)%nat -> trans_exp num G (ESub x (i :: q)) = None).
Proof.
  split.
  - intros H p. now apply reject_unbound.
  - intros w bv i q. apply reject_subscript_range.
Qed.

Lemma rejects_operators :
  (forall op a b, op <> CoEq -> op <> CoNe -> trans_cmp op (TBool, a) (TBool, b) = None)
  /\ (forall r, is_qtype (fst r) = true -> trans_un UoNot r = None)
  /\ (forall op sh l r,
        (is_qint (fst l) && is_qfixed (fst r)) || (is_qfixed (fst l) && is_qint (fst r)) = true ->
        op <> AoMul -> trans_bin op sh l r = None)
  /\ (forall op l r, op = AoShl \/ op = AoShr -> trans_bin op None l r = None)
  /\ (forall rt r, ty_eq (fst r) rt = false ->
        (is_qtype (fst r) && is_qtype rt = false \/ bit_size (fst r) = bit_size rt) -> ret_coerce rt r = None)
  /\ (forall num G rt, trans_exp num G ERaise = None /\ trans_stmt num G rt SRaise = None).
Proof.
  repeat split.
  - apply reject_bool_order.
  - intros r. now apply reject_not_on_sized.
  - apply reject_int_fixed_mix.
  - apply reject_shift_nonconst.
  - apply reject_return_type.
Qed.
