(* M_Types.v — executable model of the fixed-width bit-vector operations of
   qlasskit/types: qtype.py (fill, crop, is_const, bitwise_not, shift_left,
   shift_right), qint.py (QintImp: const, eq, neq, gt, lt, lte, gte, add,
   mul_even_const, mul with __mul_sizing, sub, mod, bitwise_generic and/or/xor),
   qfixed.py (QfixedImp: _to_qint_repr, _from_qint_repr, eq, neq, gt, lt, lte,
   gte, _align, add, sub, mul), qchar.py (eq, neq), qbool.py (eq, neq) and
   types/__init__.py (_eq, _neq, _full_adder).

   A typed expression (Python: TExp = (type, list of sympy Booleans)) is a pair
   (t : ty, bits : list bexp), little-endian.  [ty] is the type tree of
   M_Codec.v; BIT_SIZE is [ty_size].  Python's False/True list elements and
   sympy's false/true are [BConst].  The functions are transcribed method by
   method with the same iteration structure; the result is [option]: [None]
   stands for "the Python method raises" (type checks, UnboundLocalError,
   IndexError, ValueError) and, in the two places marked UNMODELLED below,
   for an operand-type combination this layer does not describe (a Qfixed or
   Qchar CONSTANT operand of QintImp.mul, whose from_bool is not an int).

   sympy re-canonicalises what the methods build (flattening, constant
   propagation); the model builds the tree literally, so the correspondence
   with the implementation is semantic (same value on every assignment), and
   [is_const] is syntactic here: an operand that only sympy's simplification
   turns into constants (e.g. [a & 0]) is constant for the implementation and
   not for the model — the two branches of [mul] that this selects compute the
   same function and the same result type (P_Types.qint_mul_spec covers both).

   No proofs here: the model must still evaluate when a proof breaks. *)
From Coq Require Import List Bool NArith ZArith Arith.
From QV Require Import Bits Bexp BexpTT M_Codec Generated.
Import ListNotations.

Definition texp : Type := ty * list bexp.

Definition bfalse : bexp := BConst false.
Definition btrue : bexp := BConst true.

(* cls.BIT_SIZE *)
Definition bit_size (t : ty) : nat := ty_size t.

(* issubclass(t, Qtype) / QintImp / QfixedImp *)
Definition is_qtype (t : ty) : bool :=
  match t with TQint _ | TQfixed _ _ | TQchar => true | _ => false end.
Definition is_qint (t : ty) : bool := match t with TQint _ => true | _ => false end.
Definition is_qfixed (t : ty) : bool := match t with TQfixed _ _ => true | _ => false end.

Definition obind {A B} (x : option A) (f : A -> option B) : option B :=
  match x with Some a => f a | None => None end.

(* ------------------------------------------------------------------ *)
(* types/__init__.py                                                   *)
(* ------------------------------------------------------------------ *)
Definition b_neq (a b : bexp) : bexp := BXor [a; b].               (* _neq *)
Definition b_eq (a b : bexp) : bexp := BNot (BXor [a; b]).         (* _eq *)
(* _full_adder(c, a, b) = ((a & b) ^ (a ^ b) & c, Xor(Xor(a, b), c)) : carry, sum;
   Python precedence: & binds tighter than ^ *)
Definition full_adder (c a b : bexp) : bexp * bexp :=
  (BXor [BAnd [a; b]; BAnd [BXor [a; b]; c]], BXor [BXor [a; b]; c]).

(* ------------------------------------------------------------------ *)
(* qtype.py: Qtype                                                     *)
(* ------------------------------------------------------------------ *)
(* cls.fill(v): pads to the BIT_SIZE of cls; the type changes only when padding happens *)
Definition fill (cls : ty) (v : texp) : texp :=
  if (bit_size cls <=? length (snd v))%nat then v
  else (cls, snd v ++ repeat bfalse (bit_size cls - length (snd v))).

(* cls.crop(v) *)
Definition crop (cls : ty) (v : texp) : texp :=
  if (length (snd v) <=? bit_size cls)%nat then v
  else (cls, firstn (bit_size cls) (snd v)).

Definition is_const_bit (e : bexp) : bool := match e with BConst _ => true | _ => false end.
Definition is_const (v : texp) : bool := forallb is_const_bit (snd v).

(* the boolean an element of a constant list stands for (`if x` of bool_list_to_bin) *)
Definition truthy (e : bexp) : bool := match e with BConst b => b | _ => true end.

Definition bitwise_not (v : texp) : texp := (fst v, map BNot (snd v)).

(* v[0].fill((v[0], v[1][i:])) *)
Definition shift_right (v : texp) (i : nat) : option texp :=
  if is_qtype (fst v) then Some (fill (fst v) (fst v, skipn i (snd v))) else None.

(* v[0].crop((v[0], [False] * i + v[1])) *)
Definition shift_left (v : texp) (i : nat) : option texp :=
  if is_qtype (fst v) then Some (crop (fst v) (fst v, repeat bfalse i ++ snd v)) else None.

(* ------------------------------------------------------------------ *)
(* qint.py: QintImp                                                    *)
(* ------------------------------------------------------------------ *)
(* cls.const(v): bits from M_Codec.qint_const (bin(v % 2**w)[2:] reversed, filled) *)
Definition qint_const_e (w : nat) (v : N) : texp := (TQint w, map BConst (qint_const w v)).

(* for x in zip(l, r): ex = And(ex, _eq(x0, x1)) *)
Definition eq_zip (l r : list bexp) (ex : bexp) : bexp :=
  fold_left (fun ex xy => BAnd [ex; b_eq (fst xy) (snd xy)]) (combine l r) ex.
Definition neq_zip (l r : list bexp) (ex : bexp) : bexp :=
  fold_left (fun ex xy => BOr [ex; b_neq (fst xy) (snd xy)]) (combine l r) ex.
(* for x in tail: ex = And(ex, Not(x))   /   ex = Or(ex, x) *)
Definition and_not_all (tl : list bexp) (ex : bexp) : bexp :=
  fold_left (fun ex x => BAnd [ex; BNot x]) tl ex.
Definition or_all (tl : list bexp) (ex : bexp) : bexp :=
  fold_left (fun ex x => BOr [ex; x]) tl ex.

(* l[len(r):] is empty unless len(l) > len(r): the two `if`s of the source are
   the two skipn below *)
Definition qint_eq_bits (l r : list bexp) : bexp :=
  and_not_all (skipn (length l) r) (and_not_all (skipn (length r) l) (eq_zip l r btrue)).
Definition qint_neq_bits (l r : list bexp) : bexp :=
  or_all (skipn (length l) r) (or_all (skipn (length r) l) (neq_zip l r bfalse)).

Definition guard2 (tl tr : texp) {A} (x : option A) : option A :=
  if is_qtype (fst tl) && is_qtype (fst tr) then x else None.

Definition qint_eq (tl tr : texp) : option texp :=
  guard2 tl tr (Some (TBool, [qint_eq_bits (snd tl) (snd tr)])).
Definition qint_neq (tl tr : texp) : option texp :=
  guard2 tl tr (Some (TBool, [qint_neq_bits (snd tl) (snd tr)])).

(* the loop of gt over list(zip(l, r))[::-1]; state = (ex, prev); ex is unbound
   (None) until the first iteration *)
Definition gt_step (st : option bexp * list bexp) (ab : bexp * bexp) : option bexp * list bexp :=
  let '(ex, prev) := st in
  let '(a, b) := ab in
  let ex' := match prev, ex with
             | [], _ => BAnd [a; BNot b]
             | _, Some e => BOr [e; BAnd (prev ++ [a; BNot b])]
             | _, None => BAnd [a; BNot b]   (* unreachable: ex is bound whenever prev <> [] *)
             end in
  (Some ex', prev ++ [b_eq a b]).

Definition gt_loop (l r : list bexp) : option bexp :=
  fst (fold_left gt_step (rev (combine l r)) (None, [])).

(* None: UnboundLocalError (`ex` referenced before assignment) when zip(l, r) is empty *)
Definition qint_gt_bits (l r : list bexp) : option bexp :=
  match gt_loop l r with
  | None => None
  | Some ex => Some (and_not_all (skipn (length l) r) (or_all (skipn (length r) l) ex))
  end.

Definition qint_lt_bits (l r : list bexp) : option bexp :=
  obind (qint_gt_bits l r) (fun g => Some (BAnd [BNot g; BNot (qint_eq_bits l r)])).
Definition qint_lte_bits (l r : list bexp) : option bexp :=
  obind (qint_gt_bits l r) (fun g => Some (BNot g)).
Definition qint_gte_bits (l r : list bexp) : option bexp :=
  obind (qint_lt_bits l r) (fun g => Some (BNot g)).

Definition as_bool (x : option bexp) : option texp := option_map (fun e => (TBool, [e])) x.

Definition qint_gt (tl tr : texp) := guard2 tl tr (as_bool (qint_gt_bits (snd tl) (snd tr))).
Definition qint_lt (tl tr : texp) := guard2 tl tr (as_bool (qint_lt_bits (snd tl) (snd tr))).
Definition qint_lte (tl tr : texp) := guard2 tl tr (as_bool (qint_lte_bits (snd tl) (snd tr))).
Definition qint_gte (tl tr : texp) := guard2 tl tr (as_bool (qint_gte_bits (snd tl) (snd tr))).

(* the operand padding shared by add and bitwise_generic *)
Definition fill_pair (tl tr : texp) : texp * texp :=
  if (length (snd tr) <? length (snd tl))%nat then (tl, fill (fst tl) tr)
  else if (length (snd tl) <? length (snd tr))%nat then (fill (fst tr) tl, tr)
  else (tl, tr).

(* carry = False; for x in zip(l, r): carry, sum = _full_adder(carry, x0, x1); sums.append(sum) *)
Fixpoint ripple (c : bexp) (ps : list (bexp * bexp)) : list bexp :=
  match ps with
  | [] => []
  | (a, b) :: r => let '(c', s) := full_adder c a b in s :: ripple c' r
  end.

(* cls.add(tleft, tright) *)
Definition qint_add (cls : ty) (tl tr : texp) : option texp :=
  guard2 tl tr
    (let '(tl_e, tr_e) := fill_pair tl tr in
     let sums := ripple bfalse (combine (snd tl_e) (snd tr_e)) in
     Some (if (bit_size (fst tl_e) <? bit_size cls)%nat then cls else fst tl_e, sums)).

(* bitwise_generic(op, tleft, tright): returns the RIGHT operand's type after padding *)
Definition qint_bitwise (op : bexp -> bexp -> bexp) (tl tr : texp) : option texp :=
  guard2 tl tr
    (let '(tl_e, tr_e) := fill_pair tl tr in
     Some (fst tr_e, map (fun ab => op (fst ab) (snd ab)) (combine (snd tl_e) (snd tr_e)))).
Definition qint_bitwise_xor := qint_bitwise (fun a b => BXor [a; b]).
Definition qint_bitwise_and := qint_bitwise (fun a b => BAnd [a; b]).
Definition qint_bitwise_or := qint_bitwise (fun a b => BOr [a; b]).

(* cls.sub(tleft, tright): ~(~a + b), the left operand extended first *)
Definition qint_sub (cls : ty) (tl tr : texp) : option texp :=
  guard2 tl tr
    (let tl1 := if (length (snd tl) <? length (snd tr))%nat then fill (fst tr) tl else tl in
     let an := bitwise_not (fill cls tl1) in
     obind (qint_add cls an (fill cls tr)) (fun su => Some (bitwise_not su))).

(* __mul_sizing(n, m): the BIT_SIZE of the Qint type it returns *)
Definition mul_sizing (nm : nat) : nat :=
  if (nm <=? 2)%nat then 2 else if (nm <=? 4)%nat then 4 else if (nm <=? 6)%nat then 6
  else if (nm <=? 8)%nat then 8 else if (nm <=? 12)%nat then 12 else 16.

(* n = 1; while 2**n <= const: n += 1; if 2**n > const: n -= 1
   gives floor(log2 const) for every const >= 1 *)
Definition top_bit (c : N) : nat := N.to_nat (N.log2 c).

(* QintImp.__sub__ (used once: `const - 2**n` when const is the QintImp object
   built by from_bool): (self.value - b) % 2**BIT_SIZE with self.value = raw % 2**BIT_SIZE *)
Definition py_qint_obj_sub (w : nat) (raw b : N) : N :=
  Z.to_N ((Z.of_N (raw mod 2 ^ N.of_nat w)%N - Z.of_N b) mod Z.of_N (2 ^ N.of_nat w)%N)%Z.

(* body of mul_even_const after the const == 0 test; [r] is the remainder,
   [rec] the recursive call; result_type is always a Qint class: TQint wr *)
Definition mec_step (rec : N -> option texp) (t_num : list bexp) (c r : N) (wr : nat) : option texp :=
  let rt := TQint wr in
  obind (shift_left (rt, t_num) (top_bit c)) (fun sh =>
    let t_num_r := fill rt sh in
    if (0 <? r)%N then
      obind (rec r) (fun rest => qint_add rt (rt, snd t_num_r) (fill rt rest))
    else Some (rt, snd t_num_r)).

Definition mec_zero (wr : nat) : texp := fill (TQint wr) (TQint wr, []).

(* mul_even_const(t_num, const, result_type) for a plain int const; the recursion
   is on the remainder const - 2**n, which has fewer bits: [fuel] > N.size c suffices *)
Fixpoint mul_even_const (fuel : nat) (t_num : list bexp) (c : N) (wr : nat) : option texp :=
  match fuel with
  | O => None
  | S fuel' =>
      if (c =? 0)%N then Some (mec_zero wr)
      else mec_step (fun r => mul_even_const fuel' t_num r wr) t_num c (c - 2 ^ N.log2 c)%N wr
  end.

(* the call made by mul: const is a QintImp object of width wc whose int value is raw *)
Definition mul_even_const_obj (wc : nat) (t_num : list bexp) (raw : N) (wr : nat) : option texp :=
  if (raw =? 0)%N then Some (mec_zero wr)
  else
    let fuel := S (Nat.max (N.to_nat (N.size raw)) wc) in
    mec_step (fun r => mul_even_const fuel t_num r wr) t_num raw
             (py_qint_obj_sub wc raw (2 ^ N.log2 raw)%N) wr.

(* one iteration of the inner loop of mul: j over range(m), state (carry, product) *)
Definition mul_inner (l r : list bexp) (n m i : nat) (st : bexp * list bexp) (j : nat) : bexp * list bexp :=
  let '(carry, product) := st in
  let pp := BAnd [nth i l bfalse; nth j r bfalse] in
  if (i + j <? n + m - 1)%nat then
    let '(c', s) := full_adder carry pp (nth (i + j) product bfalse) in
    (c', upd bfalse product (i + j) s)
  else (carry, upd bfalse product (i + j) (BXor [carry; pp])).

Definition mul_row (l r : list bexp) (n m : nat) (product : list bexp) (i : nat) : list bexp :=
  let '(carry, product) := fold_left (mul_inner l r n m i) (seq 0 m) (bfalse, product) in
  if (i + m <? n + m)%nat then upd bfalse product (i + m) carry else product.

(* product = [False] * (n + m); for i in range(n): ... *)
Definition array_mul (l r : list bexp) (n m : nat) : list bexp :=
  fold_left (mul_row l r n m) (seq 0 n) (repeat bfalse (n + m)).

(* the constant an all-constant list stands for: int(bool_list_to_bin(v[::-1]), 2) *)
Definition const_bits_val (l : list bexp) : N := bits_val (map truthy l).

(* the operand preparation of mul: constants are padded to the other operand's
   type, then the shorter list to the longer one's ORIGINAL type; n and m are
   then SET to the larger length (whether or not the padding reached it) *)
Definition mul_operands (tl_ tr_ : texp) : texp * texp * nat * nat :=
  let tl0 := if is_const tl_ then fill (fst tr_) tl_ else tl_ in
  let tr0 := if is_const tr_ then fill (fst tl_) tr_ else tr_ in
  let n0 := length (snd tl0) in
  let m0 := length (snd tr0) in
  if Nat.eqb n0 m0 then (tl0, tr0, n0, m0)
  else if (m0 <? n0)%nat then (tl0, fill (fst tl_) tr0, n0, n0)
  else (fill (fst tr_) tl0, tr0, m0, m0).

(* cls.mul(tleft_, tright_)  (cls is not used by the method) *)
Definition qint_mul (tl_ tr_ : texp) : option texp :=
  guard2 tl_ tr_
    (let '(tl, tr, n, m) := mul_operands tl_ tr_ in
     let t := TQint (mul_sizing (n + m)) in
     let arr :=
       (* IndexError when a fill above could not reach the recorded size *)
       if (n <=? length (snd tl))%nat && (m <=? length (snd tr))%nat
       then Some (crop t (fill t (t, array_mul (snd tl) (snd tr) n m)))
       else None in
     if is_const tl || is_const tr then
       (* if is_const(tleft): t_const, t_num = tleft, tright  else: t_const, t_num = tright, tleft *)
       let t_num := if is_const tl then tr else tl in
       let t_const := if is_const tl then tl else tr in
       match fst t_const, snd t_const with
       | _, [] => None                       (* int('', 2): ValueError *)
       | TQint wc, cb =>
           let const := const_bits_val cb in
           if N.even const then
             obind (mul_even_const_obj wc (snd t_num) const (mul_sizing (n + m)))
                   (fun res => Some (crop t (fill t res)))
           else arr
       | _, _ => None   (* UNMODELLED: from_bool of a Qfixed / Qchar constant operand *)
       end
     else arr).

(* ------------------------------------------------------------------ *)
(* qfixed.py: QfixedImp                                                *)
(* ------------------------------------------------------------------ *)
(* fractional_part(v)[::-1] + integer_part(v): the little-endian bits of value * 2^F *)
Definition qrepr {A} (i : nat) (l : list A) : list A := rev (skipn i l) ++ firstn i l.
(* v[1][F:] + v[1][:F][::-1] *)
Definition unrepr {A} (f : nat) (l : list A) : list A := skipn f l ++ rev (firstn f l).

Definition to_qint_repr (v : texp) : option (list bexp) :=
  match fst v with
  | TQfixed i f => Some (qrepr i (snd v))
  | _ => None
  end.
Definition from_qint_repr (v : texp) : option (list bexp) :=
  match fst v with
  | TQfixed i f => Some (unrepr f (snd v))
  | _ => None
  end.

(* _align(tleft, tright): two Qfixed operands of DIFFERENT types are brought to the
   shipped type with the larger integer part and the larger fractional part; the
   integer part is zero-extended at its high end, the fractional part at its low
   end.  Anything else is returned unchanged.  None: TypeErrorException when no
   shipped Qfixed type has that shape (QFIXED_TYPES is Generated.shipped_qfixed). *)
Definition widen (i f : nat) (v : texp) : texp :=
  match fst v with
  | TQfixed it ft =>
      (TQfixed i f, (firstn it (snd v) ++ repeat bfalse (i - it))
                    ++ (skipn it (snd v) ++ repeat bfalse (f - ft)))
  | _ => v
  end.
Definition is_shipped_qfixed (i f : nat) : bool :=
  existsb (fun t => Nat.eqb (fst t) i && Nat.eqb (snd t) f) shipped_qfixed.
Definition qfixed_align (tl tr : texp) : option (texp * texp) :=
  match fst tl, fst tr with
  | TQfixed i1 f1, TQfixed i2 f2 =>
      if Nat.eqb i1 i2 && Nat.eqb f1 f2 then Some (tl, tr)
      else
        let i := Nat.max i1 i2 in
        let f := Nat.max f1 f2 in
        if is_shipped_qfixed i f then Some (widen i f tl, widen i f tr) else None
  | _, _ => Some (tl, tr)
  end.
Definition with_align {A} (tl tr : texp) (k : texp -> texp -> option A) : option A :=
  obind (qfixed_align tl tr) (fun ab => k (fst ab) (snd ab)).

(* QfixedImp.eq / neq: align, then the zip only (no tails) *)
Definition zip_eq (tl tr : texp) : option texp := Some (TBool, [eq_zip (snd tl) (snd tr) btrue]).
Definition zip_neq (tl tr : texp) : option texp := Some (TBool, [neq_zip (snd tl) (snd tr) bfalse]).
Definition qfixed_eq (tl tr : texp) : option texp := guard2 tl tr (with_align tl tr zip_eq).
Definition qfixed_neq (tl tr : texp) : option texp := guard2 tl tr (with_align tl tr zip_neq).

(* Qchar.eq / neq delegate to QintImp.eq / neq *)
Definition qchar_eq := qint_eq.
Definition qchar_neq := qint_neq.

(* QfixedImp.gt: type checks, align, then the Qint loop on the two qint
   representations; BOTH tails are or-ed (they are empty after the alignment) *)
Definition qfixed_gt_core (tl tr : texp) : option bexp :=
  obind (to_qint_repr tl) (fun l => obind (to_qint_repr tr) (fun r =>
    obind (gt_loop l r) (fun ex =>
      Some (or_all (skipn (length l) r) (or_all (skipn (length r) l) ex))))).
Definition qfixed_gt_bits (tl tr : texp) : option bexp :=
  if is_qfixed (fst tl) && is_qfixed (fst tr) then with_align tl tr qfixed_gt_core else None.
(* the bit QfixedImp.eq returns *)
Definition qfixed_eq_bit (tl tr : texp) : option bexp :=
  with_align tl tr (fun a b => Some (eq_zip (snd a) (snd b) btrue)).
Definition qfixed_lt_bits (tl tr : texp) : option bexp :=
  obind (qfixed_gt_bits tl tr) (fun g => obind (qfixed_eq_bit tl tr) (fun e =>
    Some (BAnd [BNot g; BNot e]))).
Definition qfixed_lte_bits (tl tr : texp) : option bexp :=
  obind (qfixed_gt_bits tl tr) (fun g => Some (BNot g)).
Definition qfixed_gte_bits (tl tr : texp) : option bexp :=
  obind (qfixed_lt_bits tl tr) (fun g => Some (BNot g)).
Definition qfixed_gt (tl tr : texp) := as_bool (qfixed_gt_bits tl tr).
Definition qfixed_lt (tl tr : texp) := as_bool (qfixed_lt_bits tl tr).
Definition qfixed_lte (tl tr : texp) := as_bool (qfixed_lte_bits tl tr).
Definition qfixed_gte (tl tr : texp) := as_bool (qfixed_gte_bits tl tr).

(* cls.add(tleft, tright) after the alignment; the inner QintImp.add is called on the
   base class (BIT_SIZE 8), only its bit list is used *)
Definition qfixed_add_core (tl tr : texp) : option texp :=
  let '(tl_e, tr_e) := fill_pair tl tr in
  obind (to_qint_repr tl_e) (fun tl_v => obind (to_qint_repr tr_e) (fun tr_v =>
    obind (qint_add (TQint 8) (fst tl_e, tl_v) (fst tr_e, tr_v)) (fun res =>
      obind (from_qint_repr (fst tl_e, snd res)) (fun bits => Some (fst tl_e, bits))))).
Definition qfixed_add (tl tr : texp) : option texp :=
  if is_qfixed (fst tr) && is_qfixed (fst tl) then with_align tl tr qfixed_add_core else None.

(* cls.sub(tleft, tright): align, then ~(~a + b) *)
Definition qfixed_sub (cls : ty) (tl tr : texp) : option texp :=
  guard2 tl tr
    (with_align tl tr (fun tl tr =>
       let an := bitwise_not (fill cls tl) in
       obind (qfixed_add an (fill cls tr)) (fun su => Some (bitwise_not su)))).

(* QintImp.mod(tleft, tright): x & (y - 1) with y - 1 computed by tright's OWN type
   (tright[0].sub(tright, tright[0].const(1))); Qchar has no sub and its const(1) raises *)
Definition qint_mod (tl tr : texp) : option texp :=
  guard2 tl tr
    (match fst tr with
     | TQint wr =>
         obind (qint_sub (TQint wr) tr (qint_const_e wr 1)) (fun tval => qint_bitwise_and tl tval)
     | TQfixed i f =>     (* accepted by the code: Qint % Qfixed, 1 is the Qfixed constant 1.0 *)
         obind (qfixed_sub (fst tr) tr (fst tr, map BConst (qfixed_const i f (mkdy 1 0))))
               (fun tval => qint_bitwise_and tl tval)
     | _ => None
     end).

Fixpoint iter_add (k : nat) (top v : texp) : option texp :=
  match k with
  | O => Some v
  | S k' => obind (qfixed_add v top) (fun v' => iter_add k' top v')
  end.

(* cls.mul(tleft, tright): `b is bool` is never true of a list element, so a = b = 0 *)
Definition qfixed_mul (cls : ty) (tl tr : texp) : option texp :=
  guard2 tl tr
    (let sel :=
       if is_qint (fst tl) then Some (tl, tr)          (* (tconst, top) *)
       else if is_qint (fst tr) then Some (tr, tl)
       else None in
     obind sel (fun ct =>
       let '(tconst, top) := ct in
       if negb (is_const tconst) then None            (* a non-constant multiplier is rejected *)
       else
       match snd tconst with
       | [] => None                                   (* int('', 2): ValueError *)
       | cb =>
           let v_const := const_bits_val cb in
           if (v_const =? 0)%N then
             match cls with
             | TQfixed i f => Some (cls, map BConst (qfixed_const i f (mkdy 0 0)))
             | _ => None   (* UNMODELLED: const(0.0) of a non-Qfixed class *)
             end
           else iter_add (N.to_nat v_const - 1) top top
       end)).

(* ------------------------------------------------------------------ *)
(* qbool.py: Qbool (operands carry ONE expression, not a list)         *)
(* ------------------------------------------------------------------ *)
Definition qbool_eq (tl tr : ty * bexp) : ty * bexp := (fst tl, b_eq (snd tl) (snd tr)).
Definition qbool_neq (tl tr : ty * bexp) : ty * bexp := (fst tl, b_neq (snd tl) (snd tr)).

(* ------------------------------------------------------------------ *)
(* dispatch as translate_expression does: getattr(tleft[0], name)(tleft, tright) *)
(* ------------------------------------------------------------------ *)
Inductive binop := OEq | ONeq | OGt | OLt | OLte | OGte | OAdd | OSub | OMul | OMod | OAnd | OOr | OXor.
Inductive unop := UNot | UShl (k : nat) | UShr (k : nat).

(* [cls] is the class the method is looked up on (the left operand's type in
   translate_expression).  Methods a class does not define are Qtype's abstract
   ones, which raise. *)
Definition type_binop (cls : ty) (op : binop) (tl tr : texp) : option texp :=
  match cls with
  | TQint _ =>
      match op with
      | OEq => qint_eq tl tr | ONeq => qint_neq tl tr
      | OGt => qint_gt tl tr | OLt => qint_lt tl tr | OLte => qint_lte tl tr | OGte => qint_gte tl tr
      | OAdd => qint_add cls tl tr | OSub => qint_sub cls tl tr | OMul => qint_mul tl tr
      | OMod => qint_mod tl tr
      | OAnd => qint_bitwise_and tl tr | OOr => qint_bitwise_or tl tr | OXor => qint_bitwise_xor tl tr
      end
  | TQfixed _ _ =>
      match op with
      | OEq => qfixed_eq tl tr | ONeq => qfixed_neq tl tr
      | OGt => qfixed_gt tl tr | OLt => qfixed_lt tl tr | OLte => qfixed_lte tl tr | OGte => qfixed_gte tl tr
      | OAdd => qfixed_add tl tr | OSub => qfixed_sub cls tl tr | OMul => qfixed_mul cls tl tr
      | _ => None
      end
  | TQchar =>
      match op with
      | OEq => qchar_eq tl tr | ONeq => qchar_neq tl tr
      | _ => None
      end
  | _ => None
  end.

Definition type_unop (op : unop) (v : texp) : option texp :=
  match op with
  | UNot => if is_qtype (fst v) then Some (bitwise_not v) else None
  | UShl k => shift_left v k
  | UShr k => shift_right v k
  end.
