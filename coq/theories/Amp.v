(* Amp.v — EXACT amplitude semantics of the gate set used by qlasskit's
   algorithm circuits: {I, X, Z, H, CX, CCX, MCX n, MCtrl X n, CZ, MCtrl Z n,
   Swap, Barrier, Nop}.

   A state is an integer-valued amplitude per basis index (N; bit q of the
   index = qubit q) together with a counter k meaning "divide every amplitude
   by sqrt(2)^k".  The unnormalised H maps |b> to |0> + (-1)^b |1> and adds 1 to
   k, so all arithmetic is in Z and two outcome probabilities a^2/2^k compare as
   integers.

   Two semantics:
   * the REFERENCE semantics on total functions  N -> Z  (ref_step / run_ref),
   * an executable one on finite sorted association lists (imp_step / run_amp)
     that is fast under vm_compute when the support is small,
   and the theorem amp_run_spec: they agree pointwise, gate list by gate list.
   Correctness never depends on the lists being sorted (the meaning of a list
   is the SUM of the entries with a given key); sortedness only keeps the lists
   short, and is checked at the end (strictly_sorted) where the probabilities
   are read off. *)
From Coq Require Import List Bool NArith ZArith Arith Lia.
From QV Require Import Circ.
Import ListNotations.
Local Open Scope N_scope.

(* ------------------------------------------------------------------ *)
(* index manipulation                                                  *)
(* ------------------------------------------------------------------ *)
Definition bitm (q : N) : N := N.shiftl 1 q.
Definition ctl (cs : list N) (i : N) : bool := forallb (N.testbit i) cs.
Definition flipq (t : N) (i : N) : N := N.lxor i (bitm t).
Definition xperm (cs : list N) (t : N) (i : N) : N := if ctl cs i then flipq t i else i.
Definition swperm (a b : N) (i : N) : N :=
  if Bool.eqb (N.testbit i a) (N.testbit i b) then i else flipq b (flipq a i).

Lemma bitm_pow q : bitm q = 2 ^ q.
Proof. unfold bitm. now rewrite N.shiftl_1_l. Qed.

Lemma flipq_bits t i m : N.testbit (flipq t i) m = xorb (N.testbit i m) (N.eqb t m).
Proof. unfold flipq. now rewrite N.lxor_spec, bitm_pow, N.pow2_bits_eqb. Qed.

Lemma flipq_invol t i : flipq t (flipq t i) = i.
Proof. unfold flipq. now rewrite N.lxor_assoc, N.lxor_nilpotent, N.lxor_0_r. Qed.

Lemma ctl_flipq cs t i : ~ In t cs -> ctl cs (flipq t i) = ctl cs i.
Proof.
  intros H. unfold ctl. induction cs as [|c cs IH]; [reflexivity|]. cbn [forallb].
  rewrite IH by (intros Hc; apply H; now right). f_equal.
  rewrite flipq_bits. destruct (N.eqb_spec t c) as [->|_]; [exfalso; apply H; now left|apply xorb_false_r].
Qed.

Lemma xperm_invol cs t i : ~ In t cs -> xperm cs t (xperm cs t i) = i.
Proof.
  intros H. unfold xperm. destruct (ctl cs i) eqn:E.
  - rewrite ctl_flipq, E by exact H. apply flipq_invol.
  - now rewrite E.
Qed.

Lemma flipq_comm a b i : flipq a (flipq b i) = flipq b (flipq a i).
Proof. unfold flipq. rewrite !N.lxor_assoc. f_equal. apply N.lxor_comm. Qed.

Lemma swperm_invol a b i : swperm a b (swperm a b i) = i.
Proof.
  unfold swperm. destruct (Bool.eqb (N.testbit i a) (N.testbit i b)) eqn:E; [now rewrite E|].
  rewrite !flipq_bits, !N.eqb_refl.
  destruct (N.eqb_spec a b) as [->|Hab]; [rewrite eqb_reflx in E; discriminate|].
  destruct (N.eqb_spec b a) as [Hba|_]; [now subst|].
  replace (Bool.eqb _ _) with false.
  - rewrite (flipq_comm a b), flipq_invol. apply flipq_invol.
  - destruct (N.testbit i a), (N.testbit i b); cbn [xorb Bool.eqb] in *; congruence.
Qed.

Lemma setbit_clearbit j q : N.testbit j q = true -> N.setbit (N.clearbit j q) q = j.
Proof.
  intros H. apply N.bits_inj. intros m. rewrite N.setbit_eqb, N.clearbit_eqb.
  destruct (N.eqb_spec q m) as [->|_]; cbn; [now rewrite H|now rewrite andb_true_r].
Qed.
Lemma clearbit_setbit j q : N.testbit j q = false -> N.clearbit (N.setbit j q) q = j.
Proof.
  intros H. apply N.bits_inj. intros m. rewrite N.clearbit_eqb, N.setbit_eqb.
  destruct (N.eqb_spec q m) as [->|_]; cbn; [now rewrite H|now rewrite andb_true_r].
Qed.
Lemma clearbit_id j q : N.testbit j q = false -> N.clearbit j q = j.
Proof.
  intros H. apply N.bits_inj. intros m. rewrite N.clearbit_eqb.
  destruct (N.eqb_spec q m) as [->|_]; cbn; [now rewrite H|now rewrite andb_true_r].
Qed.
Lemma setbit_id j q : N.testbit j q = true -> N.setbit j q = j.
Proof.
  intros H. apply N.bits_inj. intros m. rewrite N.setbit_eqb.
  destruct (N.eqb_spec q m) as [->|_]; cbn; [now rewrite H|reflexivity].
Qed.
Lemma testbit_setbit j q : N.testbit (N.setbit j q) q = true.
Proof. now rewrite N.setbit_eqb, N.eqb_refl. Qed.
Lemma testbit_clearbit j q : N.testbit (N.clearbit j q) q = false.
Proof. now rewrite N.clearbit_eqb, N.eqb_refl, andb_false_r. Qed.

(* ------------------------------------------------------------------ *)
(* what a gate does                                                    *)
(* ------------------------------------------------------------------ *)
Inductive aact :=
| AX (cs : list N) (t : N)      (* X on t controlled by cs *)
| AZ (qs : list N)              (* sign flip where all of qs are 1 *)
| AH (q : N)
| ASw (a b : N)
| AId
| ANone.

Fixpoint nodupb (l : list nat) : bool :=
  match l with [] => true | x :: r => negb (existsb (Nat.eqb x) r) && nodupb r end.
Definition qs_ok (nq : nat) (qs : list nat) : bool :=
  forallb (fun q => Nat.ltb q nq) qs && nodupb qs.
Definition nN (l : list nat) : list N := map N.of_nat l.

(* the action of a gate of an nq-qubit circuit; ANone: outside the gate set,
   or a qubit index out of range, or a repeated qubit *)
Definition aact_of (nq : nat) (g : gate) : aact :=
  if negb (qs_ok nq (gqs g)) then ANone else
  match cact_of g with
  | CFlip cs t => AX (nN cs) (N.of_nat t)
  | CId => AId
  | CNone =>
      match gkind g, gqs g with
      | K1 BH, [q] => AH (N.of_nat q)
      | K1 BZ, [q] => AZ [N.of_nat q]
      | KCZ, [a; b] => AZ [N.of_nat a; N.of_nat b]
      | KMCtrl BZ n, qs => if Nat.eqb (length qs) (S n) then AZ (nN qs) else ANone
      | K1 BSwap, [a; b] => ASw (N.of_nat a) (N.of_nat b)
      | _, _ => ANone
      end
  end.

(* ------------------------------------------------------------------ *)
(* reference semantics on total functions                              *)
(* ------------------------------------------------------------------ *)
Definition refX (cs : list N) (t : N) (psi : N -> Z) : N -> Z := fun i => psi (xperm cs t i).
Definition refZ (qs : list N) (psi : N -> Z) : N -> Z :=
  fun i => if ctl qs i then (- psi i)%Z else psi i.
Definition refH (q : N) (psi : N -> Z) : N -> Z :=
  fun i => (psi (N.clearbit i q) +
            (if N.testbit i q then - psi (N.setbit i q) else psi (N.setbit i q)))%Z.
Definition refSw (a b : N) (psi : N -> Z) : N -> Z := fun i => psi (swperm a b i).

Definition rstate : Type := (N -> Z) * nat.
Definition ref_step (a : aact) (s : rstate) : option rstate :=
  match a with
  | AX cs t => Some (refX cs t (fst s), snd s)
  | AZ qs => Some (refZ qs (fst s), snd s)
  | AH q => Some (refH q (fst s), S (snd s))
  | ASw a b => Some (refSw a b (fst s), snd s)
  | AId => Some s
  | ANone => None
  end.
Fixpoint run_ref (nq : nat) (c : circuit) (s : rstate) : option rstate :=
  match c with
  | [] => Some s
  | g :: r => match ref_step (aact_of nq g) s with Some s' => run_ref nq r s' | None => None end
  end.
(* |0...0> *)
Definition delta0 : N -> Z := fun i => if N.eqb i 0 then 1%Z else 0%Z.

Definition feq (f g : N -> Z) : Prop := forall i, f i = g i.
Definition rs_eq (s1 s2 : rstate) : Prop := feq (fst s1) (fst s2) /\ snd s1 = snd s2.

Lemma ref_step_ext a s1 s2 : rs_eq s1 s2 -> opt_rel rs_eq (ref_step a s1) (ref_step a s2).
Proof.
  intros [Hf Hk]. destruct s1 as [p1 k1], s2 as [p2 k2]; cbn [fst snd] in *. subst k2.
  destruct a; cbn [ref_step opt_rel fst snd]; try exact I; (split; [|reflexivity]); cbn [fst];
    intros i; unfold refX, refZ, refH, refSw; rewrite ?Hf; reflexivity.
Qed.

Lemma run_ref_ext nq c : forall s1 s2, rs_eq s1 s2 -> opt_rel rs_eq (run_ref nq c s1) (run_ref nq c s2).
Proof.
  induction c as [|g c IH]; intros s1 s2 H; cbn [run_ref]; [exact H|].
  pose proof (ref_step_ext (aact_of nq g) s1 s2 H) as Hs.
  destruct (ref_step (aact_of nq g) s1), (ref_step (aact_of nq g) s2); cbn in Hs; try contradiction; [|exact I].
  now apply IH.
Qed.

Lemma run_ref_app nq c1 c2 s :
  run_ref nq (c1 ++ c2) s = match run_ref nq c1 s with Some s' => run_ref nq c2 s' | None => None end.
Proof.
  revert s; induction c1 as [|g c1 IH]; intros s; cbn [app run_ref]; [reflexivity|].
  destruct (ref_step (aact_of nq g) s); [apply IH|reflexivity].
Qed.

(* ------------------------------------------------------------------ *)
(* finite association lists                                            *)
(* ------------------------------------------------------------------ *)
Definition amps := list (N * Z).

(* the meaning of a list: sum of the entries whose key satisfies P *)
Fixpoint asum (P : N -> bool) (l : amps) : Z :=
  match l with
  | [] => 0%Z
  | e :: r => ((if P (fst e) then snd e else 0) + asum P r)%Z
  end.
Definition amp_of (l : amps) (i : N) : Z := asum (N.eqb i) l.

Fixpoint merge (l1 l2 : amps) {struct l1} : amps :=
  let fix go (l2 : amps) {struct l2} : amps :=
    match l1, l2 with
    | [], _ => l2
    | _, [] => l1
    | e1 :: r1, e2 :: r2 =>
        match N.compare (fst e1) (fst e2) with
        | Lt => e1 :: merge r1 l2
        | Gt => e2 :: go r2
        | Eq => (fst e1, (snd e1 + snd e2)%Z) :: merge r1 r2
        end
    end in go l2.

Definition map_key (p : N -> N) (l : amps) : amps := map (fun e => (p (fst e), snd e)) l.
Definition filter_key (Q : N -> bool) (l : amps) : amps := filter (fun e => Q (fst e)) l.
Definition negate (l : amps) : amps := map (fun e => (fst e, (- snd e)%Z)) l.
Definition dropz (l : amps) : amps := filter (fun e => negb (Z.eqb (snd e) 0)) l.

Lemma asum_ext P Q l : (forall j, P j = Q j) -> asum P l = asum Q l.
Proof. intros H. induction l as [|e r IH]; cbn [asum]; [reflexivity|now rewrite H, IH]. Qed.

Lemma asum_false P l : (forall j, P j = false) -> asum P l = 0%Z.
Proof. intros H. induction l as [|e r IH]; cbn [asum]; [reflexivity|now rewrite H, IH]. Qed.

Lemma asum_merge P : forall l1 l2, asum P (merge l1 l2) = (asum P l1 + asum P l2)%Z.
Proof.
  induction l1 as [|e1 r1 IH1]; intros l2.
  - destruct l2; reflexivity.
  - induction l2 as [|e2 r2 IH2].
    + cbn [merge asum]. lia.
    + cbn [merge]. destruct (N.compare_spec (fst e1) (fst e2)) as [He|Hl|Hg].
      * cbn [asum fst snd]. rewrite IH1, <- He. destruct (P (fst e1)); lia.
      * cbn [asum]. rewrite IH1. cbn [asum]. lia.
      * cbn [asum]. cbn [merge] in IH2. rewrite IH2. cbn [asum]. lia.
Qed.

Lemma asum_map_key P p l : asum P (map_key p l) = asum (fun j => P (p j)) l.
Proof. induction l as [|e r IH]; cbn [map_key map asum fst snd]; [reflexivity|]. unfold map_key in IH. now rewrite IH. Qed.

Lemma asum_filter_key P Q l : asum P (filter_key Q l) = asum (fun j => P j && Q j) l.
Proof.
  induction l as [|e r IH]; cbn [filter_key filter asum]; [reflexivity|]. unfold filter_key in IH.
  destruct (Q (fst e)); cbn [asum]; rewrite IH.
  - now rewrite andb_true_r.
  - now rewrite andb_false_r.
Qed.

Lemma asum_negate P l : asum P (negate l) = (- asum P l)%Z.
Proof.
  induction l as [|e r IH]; cbn [negate map asum fst snd]; [reflexivity|]. unfold negate in IH.
  rewrite IH. destruct (P (fst e)); lia.
Qed.

Lemma asum_dropz P l : asum P (dropz l) = asum P l.
Proof.
  induction l as [|e r IH]; cbn [dropz filter asum]; [reflexivity|]. unfold dropz in IH.
  destruct (Z.eqb_spec (snd e) 0) as [H0|H0]; cbn [negb asum]; rewrite IH; [|reflexivity].
  rewrite H0. destruct (P (fst e)); reflexivity.
Qed.

Lemma asum_split Q P l :
  asum P l = (asum P (filter_key Q l) + asum P (filter_key (fun j => negb (Q j)) l))%Z.
Proof.
  rewrite !asum_filter_key. induction l as [|e r IH]; cbn [asum]; [reflexivity|].
  rewrite IH. destruct (P (fst e)), (Q (fst e)); cbn; lia.
Qed.

(* re-establish sortedness after a key map that moves three classes of keys
   by a constant each: (P,Q), (P, not Q), (not P) *)
Definition resplit (P Q : N -> bool) (l : amps) : amps :=
  let lp := filter_key P l in
  merge (merge (filter_key Q lp) (filter_key (fun j => negb (Q j)) lp))
        (filter_key (fun j => negb (P j)) l).

Lemma asum_resplit P Q R l : asum R (resplit P Q l) = asum R l.
Proof.
  unfold resplit. rewrite !asum_merge, <- (asum_split Q R (filter_key P l)). symmetry. apply asum_split.
Qed.

(* ------------------------------------------------------------------ *)
(* executable semantics                                                *)
(* ------------------------------------------------------------------ *)
Definition impX (cs : list N) (t : N) (l : amps) : amps :=
  resplit (ctl cs) (fun j => N.testbit j t) (map_key (xperm cs t) l).
Definition impZ (qs : list N) (l : amps) : amps :=
  map (fun e => (fst e, if ctl qs (fst e) then (- snd e)%Z else snd e)) l.
Definition impH (q : N) (l : amps) : amps :=
  let l0 := filter_key (fun j => negb (N.testbit j q)) l in
  let l1 := map_key (fun j => N.clearbit j q) (filter_key (fun j => N.testbit j q) l) in
  let s := merge l0 l1 in
  let d := map_key (fun j => N.setbit j q) (merge l0 (negate l1)) in
  dropz (merge s d).
Definition impSw (a b : N) (l : amps) : amps :=
  resplit (fun j => negb (Bool.eqb (N.testbit j a) (N.testbit j b))) (fun j => N.testbit j a)
          (map_key (swperm a b) l).

Definition istate : Type := amps * nat.
Definition imp_step (a : aact) (s : istate) : option istate :=
  match a with
  | AX cs t => Some (impX cs t (fst s), snd s)
  | AZ qs => Some (impZ qs (fst s), snd s)
  | AH q => Some (impH q (fst s), S (snd s))
  | ASw a b => Some (impSw a b (fst s), snd s)
  | AId => Some s
  | ANone => None
  end.
Fixpoint run_imp (nq : nat) (c : circuit) (s : istate) : option istate :=
  match c with
  | [] => Some s
  | g :: r => match imp_step (aact_of nq g) s with Some s' => run_imp nq r s' | None => None end
  end.
Definition init_amps : amps := [(0, 1%Z)].
(* the circuit applied to |0...0> *)
Definition run_amp (nq : nat) (c : circuit) : option istate := run_imp nq c (init_amps, 0%nat).

(* ---- well-formedness of the actions the evaluator accepts ---- *)
Definition aact_wf (a : aact) : Prop :=
  match a with AX cs t => ~ In t cs | _ => True end.

Lemma existsb_eqb_in x l : existsb (Nat.eqb x) l = true <-> In x l.
Proof.
  rewrite existsb_exists. split.
  - intros (y & Hy & He). apply Nat.eqb_eq in He. now subst.
  - intros H. exists x. split; [exact H|apply Nat.eqb_refl].
Qed.
Lemma nodupb_NoDup l : nodupb l = true -> NoDup l.
Proof.
  induction l as [|x r IH]; cbn [nodupb]; intros H; [constructor|].
  apply andb_true_iff in H as [H1 H2]. constructor; [|now apply IH].
  intros Hin. apply existsb_eqb_in in Hin. now rewrite Hin in H1.
Qed.
Lemma NoDup_last_removelast (l : list nat) d : NoDup l -> ~ In (last l d) (removelast l).
Proof.
  induction l as [|x r IH]; intros Hn; [intros []|].
  destruct r as [|y r']; [intros []|].
  inversion Hn as [|? ? Hx Hr]; subst.
  change (last (x :: y :: r') d) with (last (y :: r') d).
  change (removelast (x :: y :: r')) with (x :: removelast (y :: r')).
  intros [He|Hin]; [|now apply (IH Hr)].
  apply Hx. rewrite He. clear. generalize y. induction r' as [|z r IH]; intros y0; cbn; [now left|].
  right. apply IH.
Qed.

Lemma cact_of_flip g cs t : cact_of g = CFlip cs t -> cs = removelast (gqs g) /\ t = last (gqs g) 0%nat.
Proof.
  unfold cact_of. destruct (gkind g) as [b| | | | |n|b n| |]; try destruct b; cbn [x_controls]; try discriminate;
    match goal with |- (if ?c then _ else _) = _ -> _ => destruct c end; try discriminate;
    intros H; injection H as <- <-; auto.
Qed.

Lemma aact_of_wf nq g : aact_wf (aact_of nq g).
Proof.
  unfold aact_of. destruct (qs_ok nq (gqs g)) eqn:Hok; cbn [negb]; [|exact I].
  unfold qs_ok in Hok. apply andb_true_iff in Hok as [_ Hnd]. apply nodupb_NoDup in Hnd.
  destruct (cact_of g) as [cs t| |] eqn:Ec.
  - apply cact_of_flip in Ec as [-> ->]. cbn [aact_wf]. unfold nN. rewrite in_map_iff.
    intros (y & Hy & Hin). apply Nat2N.inj in Hy. subst y. revert Hin. now apply NoDup_last_removelast.
  - exact I.
  - destruct (gkind g) as [b| | | | |n|b n| |]; try destruct b; try exact I;
      destruct (gqs g) as [|? [|? [|? ?]]]; try exact I;
      match goal with |- aact_wf (if ?c then _ else _) => destruct c end; exact I.
Qed.

(* ---- the executable step implements the reference step ---- *)
Definition repr (l : amps) (psi : N -> Z) : Prop := forall i, amp_of l i = psi i.

Lemma eqb_swap_perm (p : N -> N) i j : (forall x, p (p x) = x) -> N.eqb i (p j) = N.eqb (p i) j.
Proof.
  intros Hp. destruct (N.eqb_spec i (p j)) as [H1|H1], (N.eqb_spec (p i) j) as [H2|H2]; try reflexivity.
  - exfalso. apply H2. now rewrite H1, Hp.
  - exfalso. apply H1. now rewrite <- H2, Hp.
Qed.

Lemma impX_spec cs t l psi : ~ In t cs -> repr l psi -> repr (impX cs t l) (refX cs t psi).
Proof.
  intros Hw H i. unfold impX, amp_of, refX. rewrite asum_resplit, asum_map_key, <- H. unfold amp_of.
  apply asum_ext. intros j. apply eqb_swap_perm. intros x. now apply xperm_invol.
Qed.

Lemma impSw_spec a b l psi : repr l psi -> repr (impSw a b l) (refSw a b psi).
Proof.
  intros H i. unfold impSw, amp_of, refSw. rewrite asum_resplit, asum_map_key, <- H. unfold amp_of.
  apply asum_ext. intros j. apply eqb_swap_perm. apply swperm_invol.
Qed.

Lemma impZ_spec qs l psi : repr l psi -> repr (impZ qs l) (refZ qs psi).
Proof.
  intros H i. unfold refZ. cbv beta. rewrite <- !H. unfold amp_of, impZ. clear H.
  induction l as [|e r IH]; cbn [map asum fst snd]; [now destruct (ctl qs i)|].
  rewrite IH. destruct (N.eqb_spec i (fst e)) as [<-|_].
  - destruct (ctl qs i); lia.
  - destruct (ctl qs i); lia.
Qed.

Lemma impH_spec q l psi : repr l psi -> repr (impH q l) (refH q psi).
Proof.
  intros H i. unfold refH. rewrite <- !H. unfold amp_of, impH. clear H.
  rewrite asum_dropz, asum_merge, asum_map_key, !asum_merge, asum_negate, !asum_map_key, !asum_filter_key.
  destruct (N.testbit i q) eqn:Hi.
  - (* target bit set: only the difference list contributes *)
    rewrite (asum_false (fun j => N.eqb i j && negb (N.testbit j q))),
            (asum_false (fun j => N.eqb i (N.clearbit j q) && N.testbit j q)).
    + rewrite (asum_ext (fun j => N.eqb i (N.setbit j q) && negb (N.testbit j q)) (N.eqb (N.clearbit i q))).
      * rewrite (asum_ext (fun j => N.eqb i (N.setbit (N.clearbit j q) q) && N.testbit j q) (N.eqb (N.setbit i q))); [lia|].
        intros j. rewrite (setbit_id i q Hi).
        destruct (N.testbit j q) eqn:Hj; [now rewrite andb_true_r, setbit_clearbit|].
        rewrite andb_false_r. destruct (N.eqb_spec i j) as [->|_]; [congruence|reflexivity].
      * intros j. destruct (N.testbit j q) eqn:Hj; cbn [negb]; rewrite ?andb_true_r, ?andb_false_r.
        -- destruct (N.eqb_spec (N.clearbit i q) j) as [<-|_]; [|reflexivity]. now rewrite testbit_clearbit in Hj.
        -- destruct (N.eqb_spec i (N.setbit j q)) as [E1|H1], (N.eqb_spec (N.clearbit i q) j) as [H2|H2]; try reflexivity.
           ++ exfalso. apply H2. rewrite E1. now apply clearbit_setbit.
           ++ exfalso. apply H1. rewrite <- H2. symmetry. now apply setbit_clearbit.
    + intros j. destruct (N.testbit j q) eqn:Hj; rewrite ?andb_false_r; [|reflexivity]. rewrite andb_true_r.
      destruct (N.eqb_spec i (N.clearbit j q)) as [->|_]; [|reflexivity]. now rewrite testbit_clearbit in Hi.
    + intros j. destruct (N.eqb_spec i j) as [<-|_]; [now rewrite Hi|reflexivity].
  - (* target bit clear: only the sum list contributes *)
    rewrite (asum_false (fun j => N.eqb i (N.setbit j q) && negb (N.testbit j q))),
            (asum_false (fun j => N.eqb i (N.setbit (N.clearbit j q) q) && N.testbit j q)).
    + rewrite (asum_ext (fun j => N.eqb i j && negb (N.testbit j q)) (N.eqb (N.clearbit i q))).
      * rewrite (asum_ext (fun j => N.eqb i (N.clearbit j q) && N.testbit j q) (N.eqb (N.setbit i q))); [lia|].
        intros j. destruct (N.testbit j q) eqn:Hj; rewrite ?andb_true_r, ?andb_false_r.
        -- destruct (N.eqb_spec i (N.clearbit j q)) as [E1|H1], (N.eqb_spec (N.setbit i q) j) as [H2|H2]; try reflexivity.
           ++ exfalso. apply H2. rewrite E1. now apply setbit_clearbit.
           ++ exfalso. apply H1. rewrite <- H2. symmetry. now apply clearbit_setbit.
        -- destruct (N.eqb_spec (N.setbit i q) j) as [<-|_]; [|reflexivity]. now rewrite testbit_setbit in Hj.
      * intros j. rewrite (clearbit_id i q Hi).
        destruct (N.eqb_spec i j) as [<-|_]; [now rewrite Hi|reflexivity].
    + intros j. destruct (N.eqb_spec i (N.setbit (N.clearbit j q) q)) as [E|_]; [|reflexivity].
      rewrite E, testbit_setbit in Hi. discriminate.
    + intros j. destruct (N.eqb_spec i (N.setbit j q)) as [E|_]; [|reflexivity].
      rewrite E, testbit_setbit in Hi. discriminate.
Qed.

Definition st_repr (s : istate) (r : rstate) : Prop := repr (fst s) (fst r) /\ snd s = snd r.

Lemma imp_step_spec a s r : aact_wf a -> st_repr s r -> opt_rel st_repr (imp_step a s) (ref_step a r).
Proof.
  intros Hw [Hr Hk]. destruct a; cbn [imp_step ref_step opt_rel]; try exact I.
  - split; cbn [fst snd]; [now apply impX_spec|congruence].
  - split; cbn [fst snd]; [now apply impZ_spec|congruence].
  - split; cbn [fst snd]; [now apply impH_spec|congruence].
  - split; cbn [fst snd]; [now apply impSw_spec|congruence].
  - now split.
Qed.

Theorem run_imp_spec nq c : forall s r, st_repr s r -> opt_rel st_repr (run_imp nq c s) (run_ref nq c r).
Proof.
  induction c as [|g c IH]; intros s r H; cbn [run_imp run_ref]; [exact H|].
  pose proof (imp_step_spec (aact_of nq g) s r (aact_of_wf nq g) H) as Hs.
  destruct (imp_step (aact_of nq g) s), (ref_step (aact_of nq g) r); cbn in Hs; try contradiction; [|exact I].
  now apply IH.
Qed.

Lemma init_repr : repr init_amps delta0.
Proof.
  intros i. unfold amp_of, init_amps, delta0. cbn [asum fst snd]. destruct (N.eqb i 0); reflexivity.
Qed.

(* the evaluator is a verified evaluator: whatever it returns is, pointwise, the
   reference state of the same gate list applied to |0...0>, and it fails
   exactly when the reference semantics is undefined *)
Theorem amp_run_spec nq c :
  match run_amp nq c, run_ref nq c (delta0, 0%nat) with
  | Some (l, k), Some (psi, k') => k = k' /\ forall i, amp_of l i = psi i
  | None, None => True
  | _, _ => False
  end.
Proof.
  unfold run_amp.
  pose proof (run_imp_spec nq c (init_amps, 0%nat) (delta0, 0%nat) (conj init_repr eq_refl)) as H.
  destruct (run_imp nq c (init_amps, 0%nat)) as [[l k]|], (run_ref nq c (delta0, 0%nat)) as [[psi k']|];
    cbn in H; try contradiction; [|exact I].
  destruct H as [H1 H2]. cbn [fst snd] in *. now split.
Qed.

(* ------------------------------------------------------------------ *)
(* reading probabilities off a final state                             *)
(* ------------------------------------------------------------------ *)
(* numerator of the probability of the event P (denominator 2^k) *)
Fixpoint sqsum (P : N -> bool) (l : amps) : Z :=
  match l with
  | [] => 0%Z
  | e :: r => ((if P (fst e) then snd e * snd e else 0) + sqsum P r)%Z
  end.

Fixpoint strictly_sorted (l : amps) : bool :=
  match l with
  | [] => true
  | e :: r => match r with [] => true | e' :: _ => N.ltb (fst e) (fst e') && strictly_sorted r end
  end.

Definition msort (l : amps) : amps := fold_right (fun e acc => merge [e] acc) [] l.

Lemma asum_msort P l : asum P (msort l) = asum P l.
Proof.
  induction l as [|e r IH]; [reflexivity|]. cbn [msort fold_right]. fold (msort r).
  rewrite asum_merge, IH. cbn [asum]. lia.
Qed.

(* marginal distribution over the qubits selected by [mask]: list of
   (outcome restricted to the mask, probability numerator), sorted by outcome *)
Definition marginal (mask : N) (l : amps) : amps :=
  msort (map (fun e => (N.land (fst e) mask, (snd e * snd e)%Z)) l).

Lemma marginal_spec mask l y :
  amp_of (marginal mask l) y = sqsum (fun j => N.eqb y (N.land j mask)) l.
Proof.
  unfold marginal, amp_of. rewrite asum_msort.
  induction l as [|e r IH]; cbn [map asum sqsum fst snd]; [reflexivity|]. now rewrite IH.
Qed.

Definition mask_of (qs : list nat) : N := fold_right (fun q acc => N.lor (bitm (N.of_nat q)) acc) 0 qs.

(* every key of the list is a basis index of an nq-qubit register *)
Definition keys_below (nq : nat) (l : amps) : bool :=
  forallb (fun e => N.ltb (fst e) (2 ^ N.of_nat nq)) l.

(* the classical reversible part: X / CX / CCX / MCX / MCtrl X / identity gates on
   distinct qubits below nq *)
Definition is_x (a : aact) : bool := match a with AX _ _ | AId => true | _ => false end.
Definition xonly (nq : nat) (c : circuit) : bool := forallb (fun g => is_x (aact_of nq g)) c.
