(* Prop_C10.v — "Compilation is pure", on the effects model of the public API
   (M_Effects.v). PARTIAL by nature: the action lists are a reading of the Python
   code; the correspondence run ties them to it by observing every live object
   after every operation of random histories. *)
From Coq Require Import List Arith Bool.
From QV Require Import BexpTT M_Effects P_Effects.
Import ListNotations.

(* every object keeps, through any history of pure operations, the content it had *)
Theorem C10_history_frame : forall (obj : Type) (dflt : obj) hs h,
  wf_history obj dflt h hs ->
  forall a, (a < length h)%nat -> nth a (fst (exec_history obj dflt h hs)) dflt = nth a h dflt.
Proof. intros obj dflt hs h. exact (history_frame obj dflt hs h). Qed.
Print Assumptions C10_history_frame.

(* the result of an operation depends only on the contents of its operands *)
Theorem C10_result_depends_on_operands_only : forall (obj : Type) (dflt : obj) h1 h2 s,
  wf_step obj h1 s -> wf_step obj h2 s ->
  (forall a, In a (s_args obj s) -> nth a h1 dflt = nth a h2 dflt) ->
  snd (exec_step obj dflt h1 s) = snd (exec_step obj dflt h2 s).
Proof. intros obj dflt h1 h2 s. exact (step_result_depends_on_operands_only obj dflt h1 h2 s). Qed.
Print Assumptions C10_result_depends_on_operands_only.

(* The operations as read off the (repaired) source; objects are lists of numbers
   standing for "name :: gates". *)
Definition o := list nat.
Definition op_compile (content : o) : list (laction o) := [LAlloc o content].
Definition op_grover_fixed : list (laction o) :=     (* copy the oracle circuit, extend the copy *)
  [LCopy o (Arg 0); LUpdate o 0 (fun c => c ++ [99]); LCopy o (Loc 0)].
Definition op_grover_old : list (laction o) :=       (* extend the oracle's own circuit *)
  [LUpdateArg o 0 (fun c => c ++ [99]); LCopy o (Arg 0)].
Definition op_read_only : list (laction o) := [LCopy o (Arg 0)].   (* export / decompile / DJ / BV / Simon *)

Example C10_fixed_ops_are_pure :
  pure_op o op_grover_fixed = true /\ pure_op o op_read_only = true /\ pure_op o (op_compile [1;2]) = true.
Proof. repeat split; reflexivity. Qed.

(* non-vacuity and refutation of the old behaviour: with the old Grover the same
   operation gives a different result the second time and the oracle object changes *)
Example C10_old_grover_refuted :
  let h0 := [[7; 1; 2]] in
  let s := mkstep o [0] op_grover_old in
  let (h1, r1) := exec_step o [] h0 s in
  let (h2, r2) := exec_step o [] h1 s in
  r1 <> r2 /\ nth 0 h1 [] <> nth 0 h0 [].
Proof. cbn. split; discriminate. Qed.

Example C10_fixed_grover_history :
  let h0 := [[7; 1; 2]] in
  let s := mkstep o [0] op_grover_fixed in
  wf_history o [] h0 [s; s] /\
  (let (h1, r1) := exec_step o [] h0 s in let (h2, r2) := exec_step o [] h1 s in r1 = r2 /\ nth 0 h2 [] = nth 0 h0 []).
Proof. cbn. repeat split; repeat constructor. Qed.
