(* M_Bind.v — model of UnboundQlassf.bind (qlasskit/qlassfun.py): the bound
   function is the original body with one constant assignment per parameter
   prepended (in keyword order) and the Parameter[...] arguments removed.
   Bodies are abstract: a body is any function from an environment to a result,
   so the statements hold for every program text. *)
From Coq Require Import List Bool Arith.
Import ListNotations.

Section Bind.
  Variables (name value result : Type).
  Variable name_eqb : name -> name -> bool.
  Definition env := name -> option value.
  Definition upd_env (e : env) (k : name) (v : value) : env :=
    fun x => if name_eqb x k then Some v else e x.

  (* executing the injected assignments, first to last *)
  Definition run_assigns (kw : list (name * value)) (e : env) : env :=
    fold_left (fun e kv => upd_env e (fst kv) (snd kv)) kw e.

  (* calling a function: bind the formal names to the actual values, in order *)
  Definition call_env (formals : list name) (actuals : list value) : env :=
    run_assigns (combine formals actuals) (fun _ => None).

  (* bind with keyword arguments kw: the remaining formals are those that are not parameters *)
  Definition bound_call (body : env -> result) (kw : list (name * value))
             (formals : list name) (actuals : list value) : result :=
    body (run_assigns kw (call_env formals actuals)).
End Bind.
