(* Prop_C14.v — property C14 "Circuit composition operators compose", stated
   against the model M_QCircuit.v of qcircuit.py / qcircuitenhanced.py.
   Statements only; proofs are in P_QCircuit.v.

   Semantics: ANY type U with an equivalence [ueq], a composition [comp] (first
   argument first) with identity [uid], a denotation [den kind qubits param] of
   every gate and an action [ren] of qubit permutations, satisfying the laws
   named in each theorem:
     monoid_laws   ueq is an equivalence respected by comp; comp associative, uid neutral
     rename_laws   ren p distributes over comp and uid; den (gate on p(qubits)) = ren p (den gate)
     barrier_law   a barrier denotes uid
     selfinv_law   I X Y Z H Swap CX CZ CCX MCX MCtrl(those) twice on duplicate-free qubits = uid
     cp_inv_law    CP(t) then CP(-t) on two distinct qubits = uid
     swap_comm_law swaps on disjoint qubit pairs commute
   [cden U comp uid den gates] is the composition of the denotations in list order.
   The laws are satisfiable: C14_instance_laws proves them for an exact
   permutation-and-phase semantics whose bit part is Circ.fsim.

   Model flags: [true] = the code after /verif/proposed_fixes/C14_*.diff,
   [false] = today's code (see M_QCircuit.v). *)
From Coq Require Import List Bool NArith ZArith Arith Setoid Morphisms.
From QV Require Import Circ M_QCircuit P_QCircuit.
Import ListNotations.

(* ---- append ---- *)
Theorem C14_append_appends_one_gate : forall U ueq comp uid den,
  monoid_laws U ueq comp uid ->
  forall strict c g c', qc_append strict c g = Ok c' ->
  cn c' = cn c /\ cgates c' = cgates c ++ [g] /\ gate_ok g /\
  ueq (cden U comp uid den (cgates c')) (comp (cden U comp uid den (cgates c)) (gden U den g)).
Proof. exact L_append. Qed.
Print Assumptions C14_append_appends_one_gate.

Theorem C14_append_patched_keeps_range : forall c g c',
  in_range (cn c) (cgates c) -> qc_append true c g = Ok c' ->
  in_range (cn c') (cgates c') /\ gate_ok g.
Proof. exact append_patched_in_range. Qed.
Print Assumptions C14_append_patched_keeps_range.

(* today: `x > num_qubits` lets index == num_qubits through *)
Theorem C14_append_today_refuted :
  exists c', qc_append false (mkc 2 []) (mkq 0 (K1 BX) [2] PhNone) = Ok c' /\
             ~ in_range (cn c') (cgates c').
Proof. exact append_today_refuted. Qed.
Print Assumptions C14_append_today_refuted.

(* ---- append_circuit: `o` renamed by qs, after `c` ----
   success already implies |qs| = o.num_qubits and that o's gates are in range;
   the remaining guard, that qs has no duplicates, is the existence of a
   permutation p of the qubit indices with p(i) = qs[i] (C14_renaming_exists). *)
Theorem C14_append_circuit_is_renamed_composition : forall U ueq comp uid den ren,
  monoid_laws U ueq comp uid -> rename_laws U ueq comp uid den ren ->
  forall c o qs c' p, qc_append_circuit c o qs = Ok c' -> extends p qs ->
  cn c' = cn c /\ cgates c' = cgates c ++ map (gmap (pf p)) (cgates o) /\
  length qs = cn o /\ in_range (cn o) (cgates o) /\
  ueq (cden U comp uid den (cgates c'))
      (comp (cden U comp uid den (cgates c)) (ren p (cden U comp uid den (cgates o)))).
Proof. exact L_append_circuit. Qed.
Print Assumptions C14_append_circuit_is_renamed_composition.

Theorem C14_renaming_exists : forall qs, NoDup qs <-> exists p, extends p qs.
Proof.
  intros qs. split; [exact (extend_exists qs)|intros [p H]; exact (extends_NoDup p qs H)].
Qed.
Print Assumptions C14_renaming_exists.

(* ---- c1 + c2 and c1 += c2: sequential composition ---- *)
Theorem C14_add_is_sequential_composition : forall U ueq comp uid den,
  monoid_laws U ueq comp uid ->
  forall off c1 c2 c, qc_add off c1 c2 = Ok c ->
  cn c = cn c1 /\ map gsig (cgates c) = map gsig (cgates c1) ++ map gsig (cgates c2) /\
  ueq (cden U comp uid den (cgates c))
      (comp (cden U comp uid den (cgates c1)) (cden U comp uid den (cgates c2))).
Proof. exact L_add. Qed.
Print Assumptions C14_add_is_sequential_composition.

Theorem C14_iadd_is_sequential_composition : forall U ueq comp uid den,
  monoid_laws U ueq comp uid ->
  forall c o c', qc_iadd c o = Ok c' ->
  cn c' = cn c /\ cgates c' = cgates c ++ cgates o /\
  ueq (cden U comp uid den (cgates c'))
      (comp (cden U comp uid den (cgates c)) (cden U comp uid den (cgates o))).
Proof. exact L_iadd. Qed.
Print Assumptions C14_iadd_is_sequential_composition.

Theorem C14_iadd_succeeds : forall c o, cn o <= cn c -> in_range (cn o) (cgates o) ->
  qc_iadd c o = Ok (mkc (cn c) (cgates c ++ cgates o)).
Proof. exact qc_iadd_succeeds. Qed.
Print Assumptions C14_iadd_succeeds.

(* ---- copy: an equal circuit (same gates, same sharing pattern, same denotation) ---- *)
Theorem C14_copy_is_equal : forall U comp uid den off c,
  cn (qc_copy off c) = cn c /\
  map gsig (cgates (qc_copy off c)) = map gsig (cgates c) /\
  cden U comp uid den (cgates (qc_copy off c)) = cden U comp uid den (cgates c).
Proof. exact copy_den. Qed.
Print Assumptions C14_copy_is_equal.

Theorem C14_copy_keeps_sharing : forall off a b,
  qgate_eqb (shift_id off a) (shift_id off b) = qgate_eqb a b.
Proof. exact shift_id_eqb. Qed.
Print Assumptions C14_copy_keeps_sharing.

(* ---- repeat ---- *)
Theorem C14_repeat_is_n_fold_composition : forall U ueq comp uid den,
  monoid_laws U ueq comp uid ->
  forall zero_empty n c r, qc_repeat zero_empty n c = Ok r ->
  1 <= n \/ zero_empty = true ->
  cn r = cn c /\ ueq (cden U comp uid den (cgates r)) (upow U comp uid n (cden U comp uid den (cgates c))).
Proof. exact L_repeat. Qed.
Print Assumptions C14_repeat_is_n_fold_composition.

Theorem C14_repeat_succeeds : forall zero_empty n c, in_range (cn c) (cgates c) ->
  exists r, qc_repeat zero_empty n c = Ok r.
Proof. exact repeat_succeeds. Qed.
Print Assumptions C14_repeat_succeeds.

(* today, repeat(0) is repeat(1): one copy *)
Theorem C14_repeat_today_zero_is_one_copy : forall c,
  qc_repeat false 0 c = qc_repeat false 1 c /\
  qc_repeat false 0 c = Ok (qc_copy (2 * id_bound (cgates c)) c).
Proof. exact repeat_today_zero. Qed.
Print Assumptions C14_repeat_today_zero_is_one_copy.

Theorem C14_repeat_today_zero_refuted :
  exists r, qc_repeat false 0 x_circ = Ok r /\
            ~ mueq (mcden (cgates r)) (upow mono mcomp mid 0 (mcden (cgates x_circ))).
Proof. exact repeat_today_zero_refuted. Qed.
Print Assumptions C14_repeat_today_zero_refuted.

(* ---- remove_identities ----
   guards: gate ids are consistent (one object has one class), every gate is
   well formed (duplicate-free qubits, right arity: what append enforces) and
   every pair the loop can cancel is a self-inverse gate.  [pairs_self_inverse
   true _] always holds (the patched code tests it); for today's code
   ([selfinv = false]) it is a genuine restriction. *)
Theorem C14_remove_identities_preserves_action : forall U ueq comp uid den,
  monoid_laws U ueq comp uid -> barrier_law U ueq uid den -> selfinv_law U ueq comp uid den ->
  forall selfinv guard c c', ids_consistent (cgates c) -> Forall gate_ok (cgates c) ->
  pairs_self_inverse selfinv (cgates c) -> remove_identities selfinv guard c = Ok c' ->
  cn c' = cn c /\ ueq (cden U comp uid den (cgates c')) (cden U comp uid den (cgates c)).
Proof. exact L_remove_identities. Qed.
Print Assumptions C14_remove_identities_preserves_action.

Theorem C14_remove_identities_patched_total : forall U ueq comp uid den,
  monoid_laws U ueq comp uid -> barrier_law U ueq uid den -> selfinv_law U ueq comp uid den ->
  forall c, ids_consistent (cgates c) -> Forall gate_ok (cgates c) ->
  exists c', remove_identities true true c = Ok c' /\ cn c' = cn c /\
             ueq (cden U comp uid den (cgates c')) (cden U comp uid den (cgates c)).
Proof. exact L_remove_identities_patched. Qed.
Print Assumptions C14_remove_identities_patched_total.

Theorem C14_patched_pairs_are_self_inverse : forall l, pairs_self_inverse true l.
Proof. exact patched_pairs. Qed.
Print Assumptions C14_patched_pairs_are_self_inverse.

(* today: one S object applied twice is removed although S;S = Z *)
Theorem C14_remove_identities_today_refuted :
  exists c', remove_identities false false ss_circ = Ok c' /\
             cgates c' = [mkq 0 (K1 BH) [1] PhNone] /\
             ~ mueq (mcden (cgates c')) (mcden (cgates ss_circ)).
Proof. exact remove_identities_today_refuted. Qed.
Print Assumptions C14_remove_identities_today_refuted.

(* today: IndexError when the first two gates are an identical pair *)
Theorem C14_remove_identities_today_index_error :
  remove_identities false false xx_circ = Err EIndex.
Proof. exact remove_identities_today_index_error. Qed.
Print Assumptions C14_remove_identities_today_index_error.

Theorem C14_remove_identities_patched_on_the_same_inputs :
  remove_identities true true ss_circ = Ok ss_circ /\
  remove_identities true true xx_circ = Ok (mkc 1 []).
Proof. exact remove_identities_patched_examples. Qed.
Print Assumptions C14_remove_identities_patched_on_the_same_inputs.

(* ---- iqft inverts qft on every duplicate-free qubit list ---- *)
Theorem C14_iqft_inverts_qft : forall U ueq comp uid den,
  monoid_laws U ueq comp uid -> selfinv_law U ueq comp uid den ->
  cp_inv_law U ueq comp uid den -> swap_comm_law U ueq comp den ->
  forall strict c f1 f2 wl c1 c2, NoDup wl ->
  qc_qft strict c f1 wl = Ok c1 -> qc_iqft strict c1 f2 wl = Ok c2 ->
  cn c2 = cn c /\ ueq (cden U comp uid den (cgates c2)) (cden U comp uid den (cgates c)).
Proof. exact L_iqft_inverts_qft. Qed.
Print Assumptions C14_iqft_inverts_qft.

Theorem C14_qft_iqft_succeed : forall strict c f1 f2 wl,
  NoDup wl -> Forall (fun q => q < cn c) wl ->
  exists c1 c2, qc_qft strict c f1 wl = Ok c1 /\ qc_iqft strict c1 f2 wl = Ok c2.
Proof. exact qft_iqft_succeed. Qed.
Print Assumptions C14_qft_iqft_succeed.

Theorem C14_iqft_is_reversed_inverted_qft : forall wl,
  iqft_gates wl = qft_swaps wl ++ map ginv (rev (qft_core wl)) /\
  qft_gates wl = qft_core wl ++ qft_swaps wl.
Proof. exact iqft_gates_shape. Qed.
Print Assumptions C14_iqft_is_reversed_inverted_qft.

(* ---- the laws hold in an exact semantics, so nothing above is vacuous ---- *)
Theorem C14_instance_laws :
  monoid_laws mono mueq mcomp mid /\ rename_laws mono mueq mcomp mid mden mren /\
  barrier_law mono mueq mid mden /\ selfinv_law mono mueq mcomp mid mden /\
  cp_inv_law mono mueq mcomp mid mden /\ swap_comm_law mono mueq mcomp mden.
Proof.
  exact (conj mono_monoid (conj mono_rename (conj mono_barrier (conj mono_selfinv
        (conj mono_cp_inv mono_swap_comm))))).
Qed.
Print Assumptions C14_instance_laws.

(* on the X/CX/CCX/MCX subset the instance is the classical simulation of Circ.v *)
Theorem C14_instance_is_classical : forall l f f',
  fsim f (map to_gate l) = Some f' -> forall q, mperm (mcden l) f q = f' q.
Proof. exact mono_agrees_fsim. Qed.
Print Assumptions C14_instance_is_classical.

(* ---- non-vacuity on concrete inputs ---- *)
Example C14_example_qft : exists c1 c2,
  qc_qft true (mkc 4 []) 0 [2; 0; 3] = Ok c1 /\ qc_iqft true c1 100 [2; 0; 3] = Ok c2 /\
  mueq (mcden (cgates c2)) (mcden []).
Proof.
  assert (Hnd : NoDup [2; 0; 3]) by (repeat constructor; cbn; intuition congruence).
  assert (Hr : Forall (fun q => q < cn (mkc 4 [])) [2; 0; 3]) by (repeat constructor).
  destruct (qft_iqft_succeed true (mkc 4 []) 0 100 [2; 0; 3] Hnd Hr) as (c1 & c2 & H1 & H2).
  exists c1, c2. split; [exact H1|]. split; [exact H2|].
  exact (proj2 (L_iqft_inverts_qft mono mueq mcomp mid mden mono_monoid mono_selfinv mono_cp_inv
                  mono_swap_comm true (mkc 4 []) 0 100 [2; 0; 3] c1 c2 Hnd H1 H2)).
Qed.

Example C14_example_qft_length :
  match bind (qc_qft true (mkc 4 []) 0 [2; 0; 3]) (fun c1 => qc_iqft true c1 100 [2; 0; 3]) with
  | Ok c2 => length (cgates c2)
  | Err _ => 0
  end = 14.
Proof. vm_compute. reflexivity. Qed.

Example C14_example_append_circuit :
  let c := mkc 4 [mkq 0 (K1 BH) [3] PhNone] in
  let o := mkc 2 [mkq 1 KCX [0; 1] PhNone; mkq 2 (K1 BS) [1] PhNone] in
  qc_append_circuit c o [3; 1] =
    Ok (mkc 4 [mkq 0 (K1 BH) [3] PhNone; mkq 1 KCX [3; 1] PhNone; mkq 2 (K1 BS) [1] PhNone]) /\
  exists p, extends p [3; 1].
Proof. split; [reflexivity|]. apply extend_exists. repeat constructor; cbn; intuition congruence. Qed.

Example C14_example_remove_identities :
  let x := mkq 7 (K1 BX) [0] PhNone in
  let b := mkq 8 KBarrier [] PhNone in
  let h := mkq 9 (K1 BH) [1] PhNone in
  remove_identities true true (mkc 2 [h; b; x; b; x; h]) = Ok (mkc 2 [h; h]) /\
  remove_identities false false (mkc 2 [h; b; x; b; x; h]) = Ok (mkc 2 [h; h]).
Proof. split; reflexivity. Qed.
