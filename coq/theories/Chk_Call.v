(* Chk_Call.v — correspondence for Env.bind_function: the implementation's
   compressed return expressions against the model (M_Call.compress) and against
   the sequential meaning of the callee's definition list, on all assignments. *)
From Coq Require Import List Bool NArith Arith.
From QV Require Import Bexp BexpTT M_Call.
Import ListNotations.
Local Open Scope N_scope.

(* n formal bits = symbols 0..n-1. Returns [a; b]: a = number of return
   expressions where the implementation differs from the run of the definitions,
   b = number where the model differs from the implementation (0 0 = agreement);
   9 9 if the two lists have different shapes. *)
Definition chk_compress (n : nat) (ds : defs) (nret : nat) (impl : list (nat * bexp)) : list N :=
  let m := tt_mask n in
  let env := tenv (input_tables n) in
  let run := run_defs_tt m (input_tables n) ds in
  let model := compress ds nret in
  if negb (Nat.eqb (length model) (length impl)) then [9; 9] else
  let a := filter (fun se => negb (tt_diff m (tt_eval m env (snd se)) (tenv run (fst se)) =? 0)) impl in
  let b := filter (fun p => negb (Nat.eqb (fst (fst p)) (fst (snd p))) ||
                            negb (tt_diff m (tt_eval m env (snd (fst p))) (tt_eval m env (snd (snd p))) =? 0))
                  (combine model impl) in
  [N.of_nat (length a); N.of_nat (length b)].
