(* Chk_BindAst.v — what the C08 harness evaluates: the model of bind() against the AST the
   real bind() hands to the translator (captured by wrapping _do_translate). *)
From Coq Require Import List Bool NArith ZArith Arith String.
From QV Require Import M_A2A M_BindAst.
Import ListNotations.

Inductive bobs := BOk (f : fundef) | BRaise.

(* one observation: the unbound function, the keywords in call order, what the code did *)
Definition chk_bind (f : fundef) (kw : list (string * pv)) (obs : bobs) : bool :=
  match bind_ast f kw, obs with
  | Ok g, BOk h => fundef_eqb g h
  | Raise, BRaise => true
  | _, _ => false
  end.

(* from_function: an UnboundQlassf iff the model finds a parameter *)
Definition chk_unbound (f : fundef) (impl_unbound : bool) : bool := Bool.eqb (is_unbound f) impl_unbound.

Definition failing {A} (check : A -> bool) (cases : list (N * A)) : list N :=
  map fst (filter (fun c => negb (check (snd c))) cases).
