(* Prop_C02_model.v — theorems about the executable model of the synthesiser
   (M_Compiler.v: InternalCompiler.compile and the QCircuitEnhanced bookkeeping),
   for ALL expression lists of a precisely defined class, all inputs and every
   legal resolution of the two places where Python set order is observable.

   The class (in_class, a boolean function the harness evaluates on each observed
   program): the n-ary Or rewrites supplied by sympy have the covered shape; the
   expression list is single-assignment over symbols defined before use
   (wf_defs); no target is a "__" temporary; every right-hand side is a constant,
   a symbol, or a compound expression built from Not / And / Or (two operands, or
   more through the rewrite) / non-empty Xor over symbols, without nested
   constants (ok_expr).  Since commit 56a283c of /repo the class no longer
   excludes a Not applied to an n-ary Or, Or operands that sit on one qubit,
   plain copies `y = a`, or reading a return bit.
   Run-time guard: no ancilla is recycled (nopop: the oracle has no `pop` choice;
   on the quick corpus no run ever recycles one).

   What is NOT proved: C06; C02 and C03 outside the class or when an ancilla is
   recycled.  The _refuted theorem shows
   that the "__" condition is needed (API only: the front end never reads a
   temporary twice). *)
From Coq Require Import List Bool NArith Arith.
From QV Require Import Bexp BexpTT Circ Compiled M_Compiler P_Compiler.
Import ListNotations.

(* (a) CACHE SOUNDNESS: after compile_expr, every entry (e' -> q) of the
   expression cache names a qubit that holds the value of e' *)
Theorem C02m_cache_soundness : forall n inp env tbl fuel e dest st r st',
  tbl_ok tbl = true -> pre n inp env e dest st -> cexpr fuel n tbl e dest st = Ok (r, st') ->
  forall e' q, In (e', q) (st_cache st') -> V n inp st' q = beval env e'.
Proof. exact cexpr_cache_sound. Qed.
Print Assumptions C02m_cache_soundness.

(* (b) XOR ACCUMULATION: with a destination d the call returns d and d holds
   old(d) xor value(e); without, the returned qubit holds value(e) *)
Theorem C02m_xor_accumulation : forall n inp env tbl fuel e dest st r st',
  tbl_ok tbl = true -> pre n inp env e dest st -> cexpr fuel n tbl e dest st = Ok (r, st') ->
  match dest with
  | Some d => r = d /\ V n inp st' d = xorb (V n inp st d) (beval env e)
  | None => V n inp st' r = beval env e
  end.
Proof. exact cexpr_xor_accumulation. Qed.
Print Assumptions C02m_xor_accumulation.

(* (b) FRAME: no qubit that existed before the call changes, except the
   destination; every mapped symbol still sits on a qubit holding its value *)
Theorem C02m_frame : forall n inp env tbl fuel e dest st r st',
  tbl_ok tbl = true -> pre n inp env e dest st -> cexpr fuel n tbl e dest st = Ok (r, st') ->
  (forall q, q < st_nq st -> dest <> Some q -> V n inp st' q = V n inp st q) /\
  (forall s q, In (NSym s, q) (st_qmap st') -> V n inp st' q = env s).
Proof. exact cexpr_frame. Qed.
Print Assumptions C02m_frame.

(* the whole contract (invariant, extension relation, marking discipline) *)
Theorem C02m_compile_expr_contract : forall n inp env tbl,
  tbl_ok tbl = true -> forall fuel, rec_spec n inp env (cexpr fuel n tbl).
Proof. exact cexpr_contract. Qed.
Print Assumptions C02m_compile_expr_contract.

(* the cache is sound and nothing is left marked after every statement of compile *)
Theorem C02m_cache_sound_between_statements : forall n isret is_temp tbl ds orc st X,
  in_class n is_temp tbl ds = true -> nopop orc = true ->
  compile_raw n tbl is_temp isret ds orc = Ok st ->
  (forall e q, In (e, q) (st_cache st) -> grun (st_gates st) (basis n X) q = beval (run_defs (asg X) ds) e) /\
  st_marked st = [].
Proof. exact compile_raw_cache_sound. Qed.
Print Assumptions C02m_cache_sound_between_statements.

(* (c) C02 FOR EVERY PROGRAM OF THE CLASS, uncompute = False *)
Theorem C02m_class_holds : forall n isret is_temp tbl ds orc rs st rets,
  in_class n is_temp tbl ds = true -> nopop orc = true ->
  compile n tbl is_temp isret ds false rs orc = Ok st ->
  rets_mapped st rets ->
  all_classical (out_gates st) = true /\ c02_holds n (out_gates st) ds rets.
Proof. exact compile_c02. Qed.
Print Assumptions C02m_class_holds.

(* (c') and with uncompute = True, for the return bits: uncompute_all never
   replays a gate onto a kept qubit *)
Theorem C02m_class_holds_uncompute : forall n isret is_temp tbl ds orc rs st rets,
  in_class n is_temp tbl ds = true -> nopop orc = true ->
  compile n tbl is_temp isret ds true (Some rs) orc = Ok st ->
  rets_kept st rs rets ->
  all_classical (out_gates st) = true /\ c02_holds n (out_gates st) ds rets.
Proof. exact compile_c02_uncompute. Qed.
Print Assumptions C02m_class_holds_uncompute.

(* (d) C03 FOR EVERY PROGRAM OF THE CLASS (no ancilla recycled), uncompute = True:
   the inputs are preserved and every qubit that is neither an input nor an output
   ends in state zero *)
Theorem C03m_class_holds : forall n isret is_temp tbl ds orc rs st,
  in_class n is_temp tbl ds = true -> nopop orc = true ->
  compile n tbl is_temp isret ds true (Some rs) orc = Ok st ->
  all_classical (out_gates st) = true /\ c03_holds n (st_nq st) (out_gates st) (out_qubits st rs).
Proof. exact compile_c03. Qed.
Print Assumptions C03m_class_holds.

(* no gate ever targets an argument qubit, under every setting of uncompute *)
Theorem C03m_class_inputs_preserved : forall n isret is_temp tbl ds unc rs orc st,
  in_class n is_temp tbl ds = true -> nopop orc = true ->
  compile n tbl is_temp isret ds unc rs orc = Ok st ->
  Forall (fun g => n <= tgt g) (st_gates st) /\
  forall X q, q < n -> grun (st_gates st) (basis n X) q = basis n X q.
Proof. exact compile_inputs_preserved. Qed.
Print Assumptions C03m_class_inputs_preserved.

(* the inline uncompute: after every statement, every ancilla that was not promoted
   to a named qubit is back to zero *)
Theorem C03m_ancillas_zero_between_statements : forall n isret is_temp tbl ds orc st X,
  in_class n is_temp tbl ds = true -> nopop orc = true ->
  compile_raw n tbl is_temp isret ds orc = Ok st ->
  forall q, In q (st_anc st) -> grun (st_gates st) (basis n X) q = false.
Proof. exact compile_raw_ancillas_zero. Qed.
Print Assumptions C03m_ancillas_zero_between_statements.

(* the replay lemma behind both uncompute and uncompute_all *)
Theorem C03m_replay_restores : forall U G, sc U G -> (forall g, In g G -> ~ In (tgt g) (ctrls g)) ->
  forall f q, grun (G ++ rev (subU U G)) f q = if mem_nat q U then f q else grun G f q.
Proof. exact replay_restores. Qed.
Print Assumptions C03m_replay_restores.

(* pieces used on the way, of independent interest *)
Theorem C02m_or_rewrite_accepted_is_equivalent : forall env l e',
  or_valid l e' = true -> beval env e' = beval env (BOr l).
Proof. exact or_valid_sound. Qed.
Print Assumptions C02m_or_rewrite_accepted_is_equivalent.

Theorem C02m_remove_identities_preserves : forall nq k gs, length gs <= k -> Forall (gate_ok nq) gs ->
  forall f q, grun (rm_id gs) f q = grun gs f q.
Proof. exact rm_id_sound. Qed.
Print Assumptions C02m_remove_identities_preserves.

Theorem C02m_final_uncompute_spares_kept_qubits : forall keep st st', uncompute_all keep st = Ok st' ->
  exists R, st_gates st' = st_gates st ++ R /\ st_qmap st' = st_qmap st /\ st_nq st' = st_nq st /\
            incl R (st_gates st) /\ forall g, In g R -> ~ In (tgt g) keep.
Proof. exact uncompute_all_spec. Qed.
Print Assumptions C02m_final_uncompute_spares_kept_qubits.

(* the two programs mis-compiled at commit a04f20d (Or operands on one qubit; Not
   of an n-ary Or negated in place) are in the class now, and correct *)
Theorem C02m_former_witness_aliased_or_now_holds :
  in_class 2 no_temp [] w_alias_defs = true /\ nopop w_alias_orc = true /\
  exists st, compile 2 [] no_temp (fun s => Nat.eqb s 4) w_alias_defs false (Some [4]) w_alias_orc = Ok st /\
             rets_mapped st [(4, 3)] /\ c02_holds 2 (out_gates st) w_alias_defs [(4, 3)].
Proof. exact former_witness_alias_now_holds. Qed.
Print Assumptions C02m_former_witness_aliased_or_now_holds.

Theorem C02m_former_witness_not_of_nary_or_now_holds :
  in_class 4 no_temp w_nary_tbl w_nary_defs = true /\ nopop w_nary_orc = true /\
  exists st, compile 4 w_nary_tbl no_temp (fun s => Nat.eqb s 5) w_nary_defs false (Some [5]) w_nary_orc = Ok st /\
             rets_mapped st [(5, 10)] /\ c02_holds 4 (out_gates st) w_nary_defs [(5, 10)].
Proof. exact former_witness_not_nary_or_now_holds. Qed.
Print Assumptions C02m_former_witness_not_of_nary_or_now_holds.

(* FALSE OF THE FAITHFUL MODEL without the "__" condition: *)
(* __t = a & b ; x = __t & d ; _ret = x ^ (__t & e) — a "__" temporary read
   after the statement that consumed (and uncomputed) it *)
Theorem C02m_refuted_temporary_read_twice : exists st,
  compile 5 [] (fun s => Nat.eqb s 6) (fun s => Nat.eqb s 8) w_temp_defs false (Some [8]) w_temp_orc = Ok st /\
  nopop w_temp_orc = true /\ c02_fails 5 st w_temp_defs [(8, 7)].
Proof. exact c02_refuted_temp_reused. Qed.
Print Assumptions C02m_refuted_temporary_read_twice.

(* non-vacuity: a program of the class, compiled by the model *)
Example C02m_class_is_inhabited :
  in_class 4 no_temp [] w_ok_defs = true /\
  exists st, compile 4 [] no_temp (fun s => Nat.eqb s 6) w_ok_defs false (Some [6]) w_ok_orc = Ok st /\
             In (NSym 6, 6) (st_qmap st).
Proof. exact class_example. Qed.
