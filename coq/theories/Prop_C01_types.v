(* Prop_C01_types.v — property C01, types layer: what every fixed-width
   bit-vector operation of qlasskit/types (as modelled in M_Types.v) computes,
   for EVERY width, every operand length and every assignment of the symbols.
   Statements only; proofs are in P_Types.v.

   Vocabulary (definitions in P_Types.v):
     bv rho l            the number the little-endian expression list l denotes under rho
     p2 n                2^n
     wf_te (t, l)        the list has exactly BIT_SIZE(t) elements
     good v k            v is typed Qint[k] and has k elements
     has_val x t w f     the method returns Some (t, bits) with w bits and bv rho bits = f rho for all rho
     cmp_val x f         the comparison returns Some (bool, [e]) with beval rho e = f rho for all rho
     fxv rho i l         the scaled integer value * 2^f of a Qfixed(i, f) bit list
   A result None of the model is "the Python method raises". *)
From Coq Require Import List Bool NArith Arith.
From QV Require Import Bits Bexp BexpTT M_Codec Generated M_Types P_Types.
Import ListNotations.
Local Open Scope N_scope.

(* symbolic operand: type t, symbols off .. off+w-1 *)
Definition symv (t : ty) (off w : nat) : texp := (t, map BSym (seq off w)).
(* the assignment whose symbol k is bit k of x *)
Definition asgn (x : N) : nat -> bool := fun k => N.testbit x (N.of_nat k).

(* ---------------- fill, crop, shifts, not ---------------- *)
Theorem C01t_fill : forall rho cls v,
  bv rho (snd (fill cls v)) = bv rho (snd v)
  /\ length (snd (fill cls v)) = Nat.max (length (snd v)) (bit_size cls).
Proof. exact fill_spec. Qed.
Print Assumptions C01t_fill.

Theorem C01t_crop : forall rho cls v,
  bv rho (snd (crop cls v)) = bv rho (snd v) mod p2 (bit_size cls)
  /\ length (snd (crop cls v)) = Nat.min (length (snd v)) (bit_size cls).
Proof. exact crop_spec. Qed.
Print Assumptions C01t_crop.

Theorem C01t_shift_left : forall rho v k r, shift_left v k = Some r ->
  fst r = fst v /\
  length (snd r) = Nat.min (k + length (snd v)) (bit_size (fst v)) /\
  bv rho (snd r) = (bv rho (snd v) * p2 k) mod p2 (bit_size (fst v)).
Proof. exact shift_left_spec. Qed.
Print Assumptions C01t_shift_left.

Theorem C01t_shift_right : forall rho v k r, shift_right v k = Some r ->
  fst r = fst v /\
  length (snd r) = Nat.max (length (snd v) - k) (bit_size (fst v)) /\
  bv rho (snd r) = bv rho (snd v) / p2 k.
Proof. exact shift_right_spec. Qed.
Print Assumptions C01t_shift_right.

Theorem C01t_shifts_total : forall v k, is_qtype (fst v) = true ->
  (exists r, shift_left v k = Some r) /\ (exists r, shift_right v k = Some r).
Proof. exact shifts_total. Qed.
Print Assumptions C01t_shifts_total.

Example C01t_shift_ex :
  let a := symv (TQint 4) 0 4 in
  option_map (fun r => bv (asgn 13) (snd r)) (shift_left a 2) = Some 4       (* 13 * 4 mod 16 *)
  /\ option_map (fun r => bv (asgn 13) (snd r)) (shift_right a 2) = Some 3.
Proof. split; vm_compute; reflexivity. Qed.

Theorem C01t_bitwise_not : forall rho v,
  fst (bitwise_not v) = fst v /\ length (snd (bitwise_not v)) = length (snd v)
  /\ bv rho (snd (bitwise_not v)) = p2 (length (snd v)) - 1 - bv rho (snd v)
  /\ bv rho (snd (bitwise_not v)) = N.lnot (bv rho (snd v)) (N.of_nat (length (snd v))).
Proof. exact bitwise_not_spec. Qed.
Print Assumptions C01t_bitwise_not.

(* ---------------- _full_adder and the ripple ---------------- *)
Theorem C01t_full_adder : forall rho c a b,
  N.b2n (beval rho (snd (full_adder c a b))) + 2 * N.b2n (beval rho (fst (full_adder c a b)))
  = N.b2n (beval rho c) + N.b2n (beval rho a) + N.b2n (beval rho b).
Proof. exact full_adder_spec. Qed.
Print Assumptions C01t_full_adder.

Theorem C01t_ripple : forall rho ps c,
  bv rho (ripple c ps)
  = (N.b2n (beval rho c) + bv rho (map fst ps) + bv rho (map snd ps)) mod p2 (length ps).
Proof. exact ripple_spec. Qed.
Print Assumptions C01t_ripple.

(* ---------------- QintImp comparisons: ANY two operand lengths ---------------- *)
Theorem C01t_qint_eq_neq : forall tl tr, is_qtype (fst tl) = true -> is_qtype (fst tr) = true ->
  cmp_val (qint_eq tl tr) (fun rho => bv rho (snd tl) =? bv rho (snd tr))
  /\ cmp_val (qint_neq tl tr) (fun rho => negb (bv rho (snd tl) =? bv rho (snd tr))).
Proof. exact qint_eq_spec. Qed.
Print Assumptions C01t_qint_eq_neq.

Theorem C01t_qint_order : forall tl tr, is_qtype (fst tl) = true -> is_qtype (fst tr) = true ->
  snd tl <> [] -> snd tr <> [] ->
  cmp_val (qint_gt tl tr) (fun rho => bv rho (snd tr) <? bv rho (snd tl))
  /\ cmp_val (qint_lt tl tr) (fun rho => bv rho (snd tl) <? bv rho (snd tr))
  /\ cmp_val (qint_lte tl tr) (fun rho => bv rho (snd tl) <=? bv rho (snd tr))
  /\ cmp_val (qint_gte tl tr) (fun rho => bv rho (snd tr) <=? bv rho (snd tl)).
Proof. exact qint_order_spec. Qed.
Print Assumptions C01t_qint_order.

Theorem C01t_qint_order_raises : forall tl tr, snd tl = [] \/ snd tr = [] ->
  qint_gt tl tr = None /\ qint_lt tl tr = None /\ qint_lte tl tr = None /\ qint_gte tl tr = None.
Proof. exact qint_order_raises. Qed.
Print Assumptions C01t_qint_order_raises.

(* Qint2 a = 3 against Qint4 b = 9: the case the unfixed gt got wrong *)
Example C01t_qint_order_ex :
  let a := symv (TQint 2) 0 2 in let b := symv (TQint 4) 2 4 in
  let rho := asgn (3 + 4 * 9) in
  is_qtype (fst a) = true /\ is_qtype (fst b) = true /\ snd a <> [] /\ snd b <> []
  /\ bv rho (snd a) = 3 /\ bv rho (snd b) = 9
  /\ option_map (fun r => map (beval rho) (snd r)) (qint_gt a b) = Some [false]
  /\ option_map (fun r => map (beval rho) (snd r)) (qint_lt a b) = Some [true]
  /\ option_map (fun r => map (beval rho) (snd r)) (qint_eq a b) = Some [false].
Proof. repeat split; try (vm_compute; reflexivity); discriminate. Qed.

(* ---------------- add, sub ---------------- *)
Theorem C01t_qint_add : forall cls tl tr,
  is_qtype (fst tl) = true -> is_qtype (fst tr) = true -> wf_te tl -> wf_te tr ->
  let w := Nat.max (length (snd tl)) (length (snd tr)) in
  has_val (qint_add cls tl tr) (add_type cls tl tr) w
          (fun rho => (bv rho (snd tl) + bv rho (snd tr)) mod p2 w).
Proof. exact qint_add_spec. Qed.
Print Assumptions C01t_qint_add.

Theorem C01t_qint_sub : forall cls tl tr,
  is_qtype cls = true -> is_qtype (fst tl) = true -> is_qtype (fst tr) = true ->
  wf_te tl -> wf_te tr ->
  let w := Nat.max (Nat.max (length (snd tl)) (length (snd tr))) (bit_size cls) in
  has_val (qint_sub cls tl tr) (sub_type cls tl tr) w
          (fun rho => (bv rho (snd tl) + p2 w - bv rho (snd tr)) mod p2 w).
Proof. exact qint_sub_spec. Qed.
Print Assumptions C01t_qint_sub.

(* as dispatched by translate_expression: cls = the left operand's type *)
Corollary C01t_qint_sub_dispatch : forall tl tr,
  is_qtype (fst tl) = true -> is_qtype (fst tr) = true -> wf_te tl -> wf_te tr ->
  let w := Nat.max (length (snd tl)) (length (snd tr)) in
  has_val (qint_sub (fst tl) tl tr) (wider tl tr) w
          (fun rho => (bv rho (snd tl) + p2 w - bv rho (snd tr)) mod p2 w).
Proof. exact qint_sub_dispatch. Qed.
Print Assumptions C01t_qint_sub_dispatch.

(* Qint2 + Qint4 and Qint2 - Qint4: result Qint4; 3 + 9 = 12, 1 - 3 = 14 mod 16 *)
Example C01t_qint_add_sub_ex :
  let a := symv (TQint 2) 0 2 in let b := symv (TQint 4) 2 4 in
  is_qtype (fst a) = true /\ is_qtype (fst b) = true /\ wf_te a /\ wf_te b
  /\ add_type (TQint 2) a b = TQint 4 /\ wider a b = TQint 4
  /\ option_map (fun r => (fst r, bv (asgn (3 + 4 * 9)) (snd r))) (qint_add (TQint 2) a b) = Some (TQint 4, 12)
  /\ option_map (fun r => (fst r, bv (asgn (1 + 4 * 3)) (snd r))) (qint_sub (TQint 2) a b) = Some (TQint 4, 14).
Proof. repeat split; vm_compute; reflexivity. Qed.

(* ---------------- bitwise and / or / xor ---------------- *)
Theorem C01t_qint_bitwise : forall tl tr,
  is_qtype (fst tl) = true -> is_qtype (fst tr) = true -> wf_te tl -> wf_te tr ->
  let w := Nat.max (length (snd tl)) (length (snd tr)) in
  has_val (qint_bitwise_and tl tr) (bitwise_type tl tr) w (fun rho => N.land (bv rho (snd tl)) (bv rho (snd tr)))
  /\ has_val (qint_bitwise_or tl tr) (bitwise_type tl tr) w (fun rho => N.lor (bv rho (snd tl)) (bv rho (snd tr)))
  /\ has_val (qint_bitwise_xor tl tr) (bitwise_type tl tr) w (fun rho => N.lxor (bv rho (snd tl)) (bv rho (snd tr))).
Proof. exact qint_bitwise_all_spec. Qed.
Print Assumptions C01t_qint_bitwise.

Example C01t_qint_bitwise_ex :
  let a := symv (TQint 4) 0 4 in let b := symv (TQint 2) 4 2 in
  wf_te a /\ wf_te b /\ bitwise_type a b = TQint 4
  /\ option_map (fun r => (fst r, bv (asgn (13 + 16 * 3)) (snd r))) (qint_bitwise_xor a b) = Some (TQint 4, 14).
Proof. repeat split; vm_compute; reflexivity. Qed.

(* ---------------- constants ---------------- *)
Theorem C01t_qint_const : forall w v, (0 < w)%nat ->
  fst (qint_const_e w v) = TQint w /\ wf_te (qint_const_e w v) /\ is_const (qint_const_e w v) = true
  /\ forall rho, map (beval rho) (snd (qint_const_e w v)) = nbits w (v mod p2 w)
                 /\ bv rho (snd (qint_const_e w v)) = v mod p2 w.
Proof. exact qint_const_e_spec. Qed.
Print Assumptions C01t_qint_const.

(* ---------------- mod ---------------- *)
Theorem C01t_qint_mod : forall tl tr wr,
  fst tr = TQint wr -> (0 < wr)%nat -> is_qtype (fst tl) = true -> wf_te tl -> wf_te tr ->
  has_val (qint_mod tl tr)
          (if (wr <? length (snd tl))%nat then fst tl else TQint wr)
          (Nat.max (length (snd tl)) wr)
          (fun rho => N.land (bv rho (snd tl)) ((bv rho (snd tr) + p2 wr - 1) mod p2 wr)).
Proof. exact qint_mod_spec. Qed.
Print Assumptions C01t_qint_mod.

(* the documented case: a right operand that is a power of two *)
Theorem C01t_qint_mod_pow2_partial : forall tl tr wr,
  fst tr = TQint wr -> (0 < wr)%nat -> is_qtype (fst tl) = true -> wf_te tl -> wf_te tr ->
  exists r, qint_mod tl tr = Some r /\
    forall rho k, bv rho (snd tr) = p2 k -> bv rho (snd r) = bv rho (snd tl) mod p2 k.
Proof. exact qint_mod_pow2. Qed.
Print Assumptions C01t_qint_mod_pow2_partial.

(* a % 3 is a & 2 *)
Theorem C01t_qint_mod_refuted :
  exists tl tr r, good tl 4 /\ good tr 4 /\ qint_mod tl tr = Some r
    /\ bv rho0 (snd r) <> bv rho0 (snd tl) mod bv rho0 (snd tr)
    /\ bv rho0 (snd r) = N.land (bv rho0 (snd tl)) (bv rho0 (snd tr) - 1).
Proof. exact qint_mod_non_pow2_refuted. Qed.
Print Assumptions C01t_qint_mod_refuted.

Example C01t_qint_mod_ex :
  let a := symv (TQint 4) 0 4 in let b := qint_const_e 2 2 in
  fst b = TQint 2 /\ wf_te a /\ wf_te b /\ bv (asgn 13) (snd b) = p2 1
  /\ option_map (fun r => (fst r, bv (asgn 13) (snd r))) (qint_mod a b) = Some (TQint 4, 1).
Proof. repeat split; vm_compute; reflexivity. Qed.

(* ---------------- mul ---------------- *)
(* the array multiplier on operand lists of ANY two lengths *)
Theorem C01t_array_mul : forall rho l r,
  length (array_mul l r (length l) (length r)) = (length l + length r)%nat
  /\ bv rho (array_mul l r (length l) (length r)) = bv rho l * bv rho r.
Proof. exact array_mul_spec. Qed.
Print Assumptions C01t_array_mul.

(* shift-and-add with recursion on the remainder: EVERY constant, even or odd *)
Theorem C01t_mul_even_const : forall fuel t_num c wr, (N.to_nat (N.size c) < fuel)%nat ->
  has_val (mul_even_const fuel t_num c wr) (TQint wr) wr (fun rho => (bv rho t_num * c) mod p2 wr).
Proof. exact mul_even_const_spec. Qed.
Print Assumptions C01t_mul_even_const.

Theorem C01t_mul_even_const_obj : forall wc t_num raw wr, raw < p2 wc ->
  has_val (mul_even_const_obj wc t_num raw wr) (TQint wr) wr (fun rho => (bv rho t_num * raw) mod p2 wr).
Proof. exact mul_even_const_obj_spec. Qed.
Print Assumptions C01t_mul_even_const_obj.

(* QintImp.mul, two Qint operands of any widths, symbolic or constant *)
Theorem C01t_qint_mul : forall tl tr wl wr,
  good tl wl -> good tr wr -> (0 < wl)%nat -> (0 < wr)%nat ->
  let s := mul_sizing (Nat.max wl wr + Nat.max wl wr) in
  has_val (qint_mul tl tr) (TQint s) s (fun rho => (bv rho (snd tl) * bv rho (snd tr)) mod p2 s).
Proof. exact qint_mul_spec. Qed.
Print Assumptions C01t_qint_mul.

(* below 16 result bits nothing is lost: 2w <= 16 -> the product is exact *)
Theorem C01t_mul_sizing : forall k, (k <= 16)%nat -> (k <= mul_sizing k)%nat.
Proof. exact mul_sizing_ge. Qed.
Print Assumptions C01t_mul_sizing.

(* Qint2 * Qint4 -> Qint8 (3 * 13 = 39); a * 6 through the shortcut (13 * 6 = 78);
   constant * constant with an even left operand (12 * 6 = 72, was 144 before the fix) *)
Example C01t_qint_mul_ex :
  let a := symv (TQint 2) 0 2 in let b := symv (TQint 4) 2 4 in
  good a 2 /\ good b 4 /\ good (qint_const_e 4 12) 4
  /\ mul_sizing (Nat.max 2 4 + Nat.max 2 4) = 8%nat
  /\ option_map (fun r => (fst r, bv (asgn 0) (snd r))) (qint_mul (qint_const_e 4 12) (qint_const_e 4 6)) = Some (TQint 8, 72)
  /\ option_map (fun r => (fst r, bv (asgn (3 + 4 * 13)) (snd r))) (qint_mul a b) = Some (TQint 8, 39)
  /\ option_map (fun r => (fst r, bv (asgn (4 * 13)) (snd r))) (qint_mul b (qint_const_e 4 6)) = Some (TQint 8, 78).
Proof. repeat split; vm_compute; reflexivity. Qed.

(* ---------------- Qfixed: arithmetic on the scaled integer value * 2^f ---------------- *)
(* operands of two Qfixed types (i1,f1), (i2,f2) are first aligned to the shipped type
   (max i, max f); align_ok = same type, or that type is shipped; the meaning is stated
   at the common scale 2^max(f1,f2).  For one type on both sides: p2 (f - f) = 1. *)
Theorem C01t_qfixed_add : forall i f l r, length l = (i + f)%nat -> length r = (i + f)%nat ->
  exists res, qfixed_add (TQfixed i f, l) (TQfixed i f, r) = Some (TQfixed i f, res)
    /\ length res = (i + f)%nat
    /\ forall rho, fxv rho i res = (fxv rho i l + fxv rho i r) mod p2 (i + f).
Proof. exact qfixed_add_spec. Qed.
Print Assumptions C01t_qfixed_add.

Theorem C01t_qfixed_add_mixed : forall i1 f1 i2 f2 l r,
  align_ok i1 f1 i2 f2 -> length l = (i1 + f1)%nat -> length r = (i2 + f2)%nat ->
  let i := Nat.max i1 i2 in let f := Nat.max f1 f2 in
  exists res, qfixed_add (TQfixed i1 f1, l) (TQfixed i2 f2, r) = Some (TQfixed i f, res)
    /\ length res = (i + f)%nat
    /\ forall rho, fxv rho i res
         = (fxv rho i1 l * p2 (f - f1) + fxv rho i2 r * p2 (f - f2)) mod p2 (i + f).
Proof. exact qfixed_add_mixed_spec. Qed.
Print Assumptions C01t_qfixed_add_mixed.

Theorem C01t_qfixed_sub : forall cls i f l r, (bit_size cls <= i + f)%nat ->
  length l = (i + f)%nat -> length r = (i + f)%nat ->
  exists res, qfixed_sub cls (TQfixed i f, l) (TQfixed i f, r) = Some (TQfixed i f, res)
    /\ length res = (i + f)%nat
    /\ forall rho, fxv rho i res = (fxv rho i l + p2 (i + f) - fxv rho i r) mod p2 (i + f).
Proof. exact qfixed_sub_spec. Qed.
Print Assumptions C01t_qfixed_sub.

Theorem C01t_qfixed_sub_mixed : forall i1 f1 i2 f2 l r,
  align_ok i1 f1 i2 f2 -> length l = (i1 + f1)%nat -> length r = (i2 + f2)%nat ->
  let i := Nat.max i1 i2 in let f := Nat.max f1 f2 in
  exists res, qfixed_sub (TQfixed i1 f1) (TQfixed i1 f1, l) (TQfixed i2 f2, r) = Some (TQfixed i f, res)
    /\ length res = (i + f)%nat
    /\ forall rho, fxv rho i res
         = (fxv rho i1 l * p2 (f - f1) + p2 (i + f) - fxv rho i2 r * p2 (f - f2)) mod p2 (i + f).
Proof. exact qfixed_sub_mixed_spec. Qed.
Print Assumptions C01t_qfixed_sub_mixed.

Theorem C01t_qfixed_cmp : forall i f l r,
  length l = (i + f)%nat -> length r = (i + f)%nat -> (0 < i + f)%nat ->
  let tl := (TQfixed i f, l) in let tr := (TQfixed i f, r) in
  cmp_val (qfixed_eq tl tr) (fun rho => fxv rho i l =? fxv rho i r)
  /\ cmp_val (qfixed_neq tl tr) (fun rho => negb (fxv rho i l =? fxv rho i r))
  /\ cmp_val (qfixed_gt tl tr) (fun rho => fxv rho i r <? fxv rho i l)
  /\ cmp_val (qfixed_lt tl tr) (fun rho => fxv rho i l <? fxv rho i r)
  /\ cmp_val (qfixed_lte tl tr) (fun rho => fxv rho i l <=? fxv rho i r)
  /\ cmp_val (qfixed_gte tl tr) (fun rho => fxv rho i r <=? fxv rho i l).
Proof. exact qfixed_cmp_spec. Qed.
Print Assumptions C01t_qfixed_cmp.

Theorem C01t_qfixed_cmp_mixed : forall i1 f1 i2 f2 l r,
  align_ok i1 f1 i2 f2 -> length l = (i1 + f1)%nat -> length r = (i2 + f2)%nat ->
  (0 < Nat.max i1 i2 + Nat.max f1 f2)%nat ->
  let f := Nat.max f1 f2 in
  let tl := (TQfixed i1 f1, l) in let tr := (TQfixed i2 f2, r) in
  let x := fun rho => fxv rho i1 l * p2 (f - f1) in
  let y := fun rho => fxv rho i2 r * p2 (f - f2) in
  cmp_val (qfixed_eq tl tr) (fun rho => x rho =? y rho)
  /\ cmp_val (qfixed_neq tl tr) (fun rho => negb (x rho =? y rho))
  /\ cmp_val (qfixed_gt tl tr) (fun rho => y rho <? x rho)
  /\ cmp_val (qfixed_lt tl tr) (fun rho => x rho <? y rho)
  /\ cmp_val (qfixed_lte tl tr) (fun rho => x rho <=? y rho)
  /\ cmp_val (qfixed_gte tl tr) (fun rho => y rho <=? x rho).
Proof. exact qfixed_cmp_mixed_spec. Qed.
Print Assumptions C01t_qfixed_cmp_mixed.

(* the hypothesis align_ok holds for every pair of shipped Qfixed types (checked on the
   QFIXED_TYPES list read from /repo on this run, Generated.shipped_qfixed) *)
Theorem C01t_shipped_qfixed_align_ok : forall i1 f1 i2 f2,
  In (i1, f1) shipped_qfixed -> In (i2, f2) shipped_qfixed -> align_ok i1 f1 i2 f2.
Proof. exact shipped_align_ok. Qed.
Print Assumptions C01t_shipped_qfixed_align_ok.

Theorem C01t_qfixed_mul : forall i f l wc cb,
  length l = (i + f)%nat -> cb <> [] -> forallb is_const_bit cb = true ->
  exists res, qfixed_mul (TQfixed i f) (TQfixed i f, l) (TQint wc, cb) = Some (TQfixed i f, res)
    /\ length res = (i + f)%nat
    /\ forall rho, fxv rho i res = (fxv rho i l * const_bits_val cb) mod p2 (i + f).
Proof. exact qfixed_mul_spec. Qed.
Print Assumptions C01t_qfixed_mul.

(* the constant on the left: `3 * a` is dispatched to the Qfixed type's mul as well *)
Theorem C01t_qfixed_mul_left : forall i f l wc cb,
  length l = (i + f)%nat -> cb <> [] -> forallb is_const_bit cb = true ->
  exists res, qfixed_mul (TQfixed i f) (TQint wc, cb) (TQfixed i f, l) = Some (TQfixed i f, res)
    /\ length res = (i + f)%nat
    /\ forall rho, fxv rho i res = (fxv rho i l * const_bits_val cb) mod p2 (i + f).
Proof. exact qfixed_mul_left_spec. Qed.
Print Assumptions C01t_qfixed_mul_left.

(* a non-constant multiplier is rejected *)
Example C01t_qfixed_mul_nonconst_ex :
  qfixed_mul (TQfixed 2 2) (symv (TQfixed 2 2) 0 4) (symv (TQint 2) 4 2) = None
  /\ qfixed_mul (TQfixed 2 2) (symv (TQint 2) 4 2) (symv (TQfixed 2 2) 0 4) = None.
Proof. split; vm_compute; reflexivity. Qed.

(* Qfixed2_2: 1.25 + 2.75 = 4.0 = 0.0 mod 4;  1.25 < 2.75;  1.25 * 3 = 3.75 *)
Example C01t_qfixed_ex :
  let a := symv (TQfixed 2 2) 0 4 in let b := symv (TQfixed 2 2) 4 4 in
  (* raw lists: integer bits little-endian, then fraction bits most significant first *)
  let rho := asgn (1 + 8 (* 1.25 = 1, .01 *) + 16 * (2 + 4 + 8) (* 2.75 = 2, .11 *)) in
  length (snd a) = (2 + 2)%nat /\ length (snd b) = (2 + 2)%nat
  /\ fxv rho 2 (snd a) = 5 /\ fxv rho 2 (snd b) = 11
  /\ option_map (fun r => fxv rho 2 (snd r)) (qfixed_add a b) = Some 0
  /\ option_map (fun r => fxv rho 2 (snd r)) (qfixed_sub (TQfixed 2 2) a b) = Some 10
  /\ option_map (fun r => map (beval rho) (snd r)) (qfixed_lt a b) = Some [true]
  /\ option_map (fun r => fxv rho 2 (snd r)) (qfixed_mul (TQfixed 2 2) a (qint_const_e 2 3)) = Some 15.
Proof. repeat split; vm_compute; reflexivity. Qed.

(* different types: a : Qfixed2_3 against the literal 1.5 typed Qfixed1_2 (what `a > 1.5`
   and `a + 0.5` produce): common type Qfixed2_3, scale 2^3; a = 1.0 is not > 1.5, 1.0 + 1.5 = 2.5 *)
Example C01t_qfixed_mixed_ex :
  let a := symv (TQfixed 2 3) 0 5 in let c := cst (TQfixed 1 2) [true; true; false] in
  let rho := asgn 1 in
  align_ok 2 3 1 2 /\ In (2, 3)%nat shipped_qfixed /\ In (1, 2)%nat shipped_qfixed
  /\ fxv rho 2 (snd a) = 8 /\ fxv rho 1 (snd c) * p2 (3 - 2) = 12
  /\ option_map (fun r => map (beval rho) (snd r)) (qfixed_gt a c) = Some [false]
  /\ option_map (fun r => (fst r, fxv rho 2 (snd r))) (qfixed_add a c) = Some (TQfixed 2 3, 20).
Proof.
  repeat split; try (vm_compute; reflexivity).
  - right. vm_compute. reflexivity.
  - vm_compute. tauto.
  - vm_compute. tauto.
Qed.

(* ---------------- Qchar, Qbool ---------------- *)
(* Qchar.eq / neq: ANY two operand lengths (Qchar == Qint of another width included) *)
Theorem C01t_qchar_eq_neq : forall tl tr, is_qtype (fst tl) = true -> is_qtype (fst tr) = true ->
  cmp_val (qchar_eq tl tr) (fun rho => bv rho (snd tl) =? bv rho (snd tr))
  /\ cmp_val (qchar_neq tl tr) (fun rho => negb (bv rho (snd tl) =? bv rho (snd tr))).
Proof. exact qchar_eq_spec. Qed.
Print Assumptions C01t_qchar_eq_neq.

Theorem C01t_qbool : forall rho tl tr,
  beval rho (snd (qbool_eq tl tr)) = Bool.eqb (beval rho (snd tl)) (beval rho (snd tr))
  /\ beval rho (snd (qbool_neq tl tr)) = xorb (beval rho (snd tl)) (beval rho (snd tr))
  /\ fst (qbool_eq tl tr) = fst tl /\ fst (qbool_neq tl tr) = fst tl.
Proof. exact qbool_spec. Qed.
Print Assumptions C01t_qbool.

Example C01t_qchar_ex :
  let a := symv TQchar 0 8 in let b := cst TQchar (nbits 8 97) in
  option_map (fun r => map (beval (asgn 97)) (snd r)) (qchar_eq a (qint_const_e 4 1)) = Some [false]
  /\ option_map (fun r => map (beval (asgn 97)) (snd r)) (qchar_eq a b) = Some [true]
  /\ option_map (fun r => map (beval (asgn 98)) (snd r)) (qchar_eq a b) = Some [false].
Proof. repeat split; vm_compute; reflexivity. Qed.
