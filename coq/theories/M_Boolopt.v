(* M_Boolopt.v — executable model of qlasskit/boolopt (sympytransformer.py,
   exp_transformers.py, bool_optimizer.py) and of the per-expression
   simplify_logic(e, form="cnf") of ast2logic/t_ast.py, on the n-ary boolean
   expressions of Bexp.v.  No proofs here.

   What is modelled syntactically and what only up to meaning:
   - every transformer follows SympyTransformer.visit: one clause per visit_X;
     a clause the class does not override is the default visitor, which rebuilds
     the node from the visited children;
   - the sympy constructor Not(x) evaluates Not(Not(y)) to y and Not(constant) to
     the other constant: modelled by [snot];
   - And/Or/Xor/ITE/Implies constructors of sympy also flatten, sort, drop
     duplicates and absorb constants; the model builds the plain node.  The model
     output therefore equals the implementation's output only as a boolean
     function (this is what the correspondence run compares);
   - remove_ITE.visit_ITE and remove_Implies.visit_Implies call self.visit again
     on the node they have just built from visited children; that second visit
     finds no ITE (no Implies) and changes nothing: P_Boolopt.remove_ITE_idem /
     remove_Implies_idem prove it for the model, so the clause omits it;
   - sympy library calls (simplify_logic, cse) are Section variables; symbols are
     nat indices and [is_ret i] says that symbol i is a return bit (named "_ret" or "_ret.N..."). *)
From Coq Require Import List Bool Arith.
From QV Require Import Bexp BexpTT.
Import ListNotations.

(* ---- structural equality of expressions (sympy's == on trees) ---- *)
Fixpoint bexp_eqb (a b : bexp) : bool :=
  let go := fix go (l m : list bexp) : bool :=
    match l, m with
    | [], [] => true
    | x :: l', y :: m' => bexp_eqb x y && go l' m'
    | _, _ => false
    end in
  match a, b with
  | BConst x, BConst y => Bool.eqb x y
  | BSym i, BSym j => Nat.eqb i j
  | BNot x, BNot y => bexp_eqb x y
  | BAnd l, BAnd m => go l m
  | BOr l, BOr m => go l m
  | BXor l, BXor m => go l m
  | BIte c t e, BIte c' t' e' => bexp_eqb c c' && bexp_eqb t t' && bexp_eqb e e'
  | BImp x y, BImp x' y' => bexp_eqb x x' && bexp_eqb y y'
  | _, _ => false
  end.

Fixpoint list_eqb {A} (eqb : A -> A -> bool) (l m : list A) : bool :=
  match l, m with
  | [], [] => true
  | x :: l', y :: m' => eqb x y && list_eqb eqb l' m'
  | _, _ => false
  end.

Definition defs_eqb (d1 d2 : defs) : bool :=
  list_eqb (fun a b => Nat.eqb (fst a) (fst b) && bexp_eqb (snd a) (snd b)) d1 d2.

(* sympy's Not(x) *)
Definition snot (e : bexp) : bexp :=
  match e with
  | BNot x => x
  | BConst b => BConst (negb b)
  | _ => BNot e
  end.

(* ---- SympyTransformer with no override: every default visitor ---- *)
Fixpoint visit_default (e : bexp) : bexp :=
  match e with
  | BConst _ | BSym _ => e
  | BNot x => snot (visit_default x)
  | BAnd l => BAnd (map visit_default l)
  | BOr l => BOr (map visit_default l)
  | BXor l => BXor (map visit_default l)
  | BIte c t f => BIte (visit_default c) (visit_default t) (visit_default f)
  | BImp a b => BImp (visit_default a) (visit_default b)
  end.

(* ---- remove_ITE: overrides visit_ITE ---- *)
Fixpoint remove_ITE (e : bexp) : bexp :=
  match e with
  | BConst _ | BSym _ => e
  | BNot x => snot (remove_ITE x)
  | BAnd l => BAnd (map remove_ITE l)
  | BOr l => BOr (map remove_ITE l)
  | BXor l => BXor (map remove_ITE l)
  | BIte c t f =>
      let c' := remove_ITE c in
      BOr [BAnd [c'; remove_ITE t]; BAnd [snot c'; remove_ITE f]]
  | BImp a b => BImp (remove_ITE a) (remove_ITE b)
  end.

(* ---- remove_Implies: overrides visit_Implies ---- *)
Fixpoint remove_Implies (e : bexp) : bexp :=
  match e with
  | BConst _ | BSym _ => e
  | BNot x => snot (remove_Implies x)
  | BAnd l => BAnd (map remove_Implies l)
  | BOr l => BOr (map remove_Implies l)
  | BXor l => BXor (map remove_Implies l)
  | BIte c t f => BIte (remove_Implies c) (remove_Implies t) (remove_Implies f)
  | BImp a b => BOr [snot (remove_Implies a); remove_Implies b]
  end.

(* ---- transform_or2xor: overrides visit_Or ----
   The test is positional: expr.args[0] and expr.args[1] must be conjunctions of
   exactly two arguments, and args[1].args[k] must be the negation of
   args[0].args[k] for k = 0 and k = 1 (either written polarity). *)
Definition or2xor_test (p q r s : bexp) : bool :=
  (bexp_eqb r (snot p) && bexp_eqb s (snot q)) || (bexp_eqb (snot r) p && bexp_eqb (snot s) q).

Definition or2xor_match (l : list bexp) : option (bexp * bexp) :=
  match l with
  | [BAnd [p; q]; BAnd [r; s]] => if or2xor_test p q r s then Some (p, q) else None
  | _ => None
  end.

Fixpoint transform_or2xor (e : bexp) : bexp :=
  match e with
  | BConst _ | BSym _ => e
  | BNot x => snot (transform_or2xor x)
  | BAnd l => BAnd (map transform_or2xor l)
  | BOr l =>
      match l with
      | [BAnd [p; q]; BAnd [r; s]] =>
          if or2xor_test p q r s
          then BNot (BXor [transform_or2xor p; transform_or2xor q])
          else BOr (map transform_or2xor l)
      | _ => BOr (map transform_or2xor l)
      end
  | BXor l => BXor (map transform_or2xor l)
  | BIte c t f => BIte (transform_or2xor c) (transform_or2xor t) (transform_or2xor f)
  | BImp a b => BImp (transform_or2xor a) (transform_or2xor b)
  end.

(* the rule as it was before the arity guards (commit 351a1a5 of /repo added
   them): only the first two arguments of each conjunction were looked at.  Kept
   for Prop_C04.or2xor_unguarded_refuted; not part of any profile. *)
Fixpoint transform_or2xor_unguarded (e : bexp) : bexp :=
  match e with
  | BConst _ | BSym _ => e
  | BNot x => snot (transform_or2xor_unguarded x)
  | BAnd l => BAnd (map transform_or2xor_unguarded l)
  | BOr l =>
      match l with
      | [BAnd (p :: q :: _); BAnd (r :: s :: _)] =>
          if or2xor_test p q r s
          then BNot (BXor [transform_or2xor_unguarded p; transform_or2xor_unguarded q])
          else BOr (map transform_or2xor_unguarded l)
      | _ => BOr (map transform_or2xor_unguarded l)
      end
  | BXor l => BXor (map transform_or2xor_unguarded l)
  | BIte c t f => BIte (transform_or2xor_unguarded c) (transform_or2xor_unguarded t) (transform_or2xor_unguarded f)
  | BImp a b => BImp (transform_or2xor_unguarded a) (transform_or2xor_unguarded b)
  end.

(* ---- transform_or2and: overrides visit_Or; [dis] is the module flag DISABLE_OR.
   An Or of at most two arguments is returned as it is, WITHOUT visiting its
   arguments. *)
Fixpoint transform_or2and (dis : bool) (e : bexp) : bexp :=
  match e with
  | BConst _ | BSym _ => e
  | BNot x => snot (transform_or2and dis x)
  | BAnd l => BAnd (map (transform_or2and dis) l)
  | BOr l =>
      if Nat.ltb 2 (List.length l) || dis
      then BNot (BAnd (map (fun x => snot (transform_or2and dis x)) l))
      else e
  | BXor l => BXor (map (transform_or2and dis) l)
  | BIte c t f => BIte (transform_or2and dis c) (transform_or2and dis t) (transform_or2and dis f)
  | BImp a b => BImp (transform_or2and dis a) (transform_or2and dis b)
  end.

(* ---- remove_obvious_expr: overrides visit_Not, visit_And, visit_Or, none of
   which visits the arguments; Xor/ITE/Implies keep the default visitors. *)
Definition compl_pair (x y : bexp) : bool :=
  match x, y with
  | BSym i, BNot z => bexp_eqb (BSym i) z
  | BNot z, BSym j => bexp_eqb (BSym j) z
  | _, _ => false
  end.

Fixpoint remove_obvious (e : bexp) : bexp :=
  match e with
  | BConst _ | BSym _ => e
  | BNot x => match x with BNot y => y | _ => e end
  | BAnd l => match l with [x; y] => if compl_pair x y then BConst false else e | _ => e end
  | BOr l => match l with [x; y] => if compl_pair x y then BConst true else e | _ => e end
  | BXor l => BXor (map remove_obvious l)
  | BIte c t f => BIte (remove_obvious c) (remove_obvious t) (remove_obvious f)
  | BImp a b => BImp (remove_obvious a) (remove_obvious b)
  end.

(* a SympyTransformer step of BoolOptimizerProfile.apply: the names are kept *)
Definition map_defs (f : bexp -> bexp) (ds : defs) : defs :=
  map (fun se => (fst se, f (snd se))) ds.

(* ---- e.xreplace(emap): simultaneous substitution; the most recent binding of
   a symbol is the one in the dict, i.e. the first in the association list ---- *)
Fixpoint lookup (m : defs) (i : nat) : option bexp :=
  match m with
  | [] => None
  | (s, v) :: r => if Nat.eqb i s then Some v else lookup r i
  end.

Fixpoint subst (m : defs) (e : bexp) : bexp :=
  match e with
  | BConst _ => e
  | BSym i => match lookup m i with Some v => v | None => e end
  | BNot x => snot (subst m x)
  | BAnd l => BAnd (map (subst m) l)
  | BOr l => BOr (map (subst m) l)
  | BXor l => BXor (map (subst m) l)
  | BIte c t f => BIte (subst m c) (subst m t) (subst m f)
  | BImp a b => BImp (subst m a) (subst m b)
  end.

Definition names (ds : defs) : list nat := map fst ds.
Definition exprs (ds : defs) : list bexp := map snd ds.
(* every symbol read by some expression of the list *)
Definition all_syms (ds : defs) : list nat := flat_map bsyms (exprs ds).

(* the steps a shipped profile is made of *)
Inductive step :=
| S_merge | S_cse | S_remove_ITE | S_remove_Implies | S_or2xor | S_or2and | S_obvious
| S_cse_guarded.   (* not shipped: apply_cse after the proposed patch *)

Definition step_eqb (a b : step) : bool :=
  match a, b with
  | S_merge, S_merge | S_cse, S_cse | S_remove_ITE, S_remove_ITE
  | S_remove_Implies, S_remove_Implies | S_or2xor, S_or2xor | S_or2and, S_or2and
  | S_obvious, S_obvious | S_cse_guarded, S_cse_guarded => true
  | _, _ => false
  end.

Definition is_transformer (st : step) : bool :=
  match st with S_merge | S_cse | S_cse_guarded => false | _ => true end.

(* bool_optimizer.defaultOptimizer and fastOptimizer (the correspondence run
   compares these lists with the step objects of the shipped profiles) *)
Definition default_profile : list step :=
  [S_merge; S_cse; S_remove_ITE; S_remove_Implies; S_or2xor; S_or2and; S_obvious].
(* defaultOptimizer with the patched apply_cse *)
Definition default_profile_guarded : list step :=
  [S_merge; S_cse_guarded; S_remove_ITE; S_remove_Implies; S_or2xor; S_or2and; S_obvious].
Definition fast_profile : list step :=
  [S_remove_ITE; S_remove_Implies; S_or2xor; S_or2and; S_obvious].

(* apply_cse, given the function [cse1] that sympy.cse computes on the list of
   expressions: replacements first, then the reduced expressions under the old
   names (the implementation raises IndexError on the empty list; the model
   returns the replacements of cse []) *)
Definition apply_cse (cse1 : list bexp -> defs * list bexp) (ds : defs) : defs :=
  let rr := cse1 (exprs ds) in fst rr ++ combine (names ds) (snd rr).

Definition memb (i : nat) (l : list nat) : bool := existsb (Nat.eqb i) l.

(* no expression of the list reads a symbol that the list defines *)
Definition no_def_readb (ds : defs) : bool := forallb (fun i => negb (memb i (names ds))) (all_syms ds).

(* apply_cse as proposed in /verif/proposed_fixes/C04_apply_cse_order.diff: a list
   in which an expression reads a symbol the list defines is left as it is, and
   cse is told not to use the names of the list for its replacements
   ([cse ex] = sympy.cse(..., symbols=numbered_symbols(exclude=ex))) *)
Definition apply_cse_guarded (cse : list nat -> list bexp -> defs * list bexp) (ds : defs) : defs :=
  if no_def_readb ds then apply_cse (cse (names ds)) ds else ds.

Section Oracles.
  (* sympy.simplify_logic (any form) *)
  Variable simp : bexp -> bexp.
  (* sympy.cse; the first argument is the list of names it must not use for
     replacement symbols ([] in the shipped code: cse(exprs)) *)
  Variable cse : list nat -> list bexp -> defs * list bexp.
  (* symbol i is a return bit: its name is "_ret" or starts with "_ret." *)
  Variable is_ret : nat -> bool.
  (* exp_transformers.DISABLE_OR *)
  Variable disable_or : bool.

  (* translate_ast: exps_simpl = map (simplify_logic(e, form="cnf")) exps_flat *)
  Definition front_simplify (ds : defs) : defs := map_defs simp ds.

  (* custom_simplify_logic *)
  Fixpoint custom_simplify (e : bexp) : bexp :=
    match e with
    | BXor _ => e
    | BAnd l => BAnd (map custom_simplify l)
    | BOr l => BOr (map custom_simplify l)
    | BNot x => snot (custom_simplify x)
    | BConst _ | BSym _ | BIte _ _ _ | BImp _ _ => simp e
    end.

  (* merge_expressions; [emap] is the dict *)
  Fixpoint merge_go (emap : defs) (ds : defs) : defs :=
    match ds with
    | [] => []
    | (s, e) :: r =>
        let e' := custom_simplify (subst emap e) in
        if is_ret s then (s, e') :: merge_go emap r else merge_go ((s, e') :: emap) r
    end.
  Definition merge_expressions (ds : defs) : defs := merge_go [] ds.

  Definition apply_step (st : step) (ds : defs) : defs :=
    match st with
    | S_merge => merge_expressions ds
    | S_cse => apply_cse (cse []) ds
    | S_cse_guarded => apply_cse_guarded cse ds
    | S_remove_ITE => map_defs remove_ITE ds
    | S_remove_Implies => map_defs remove_Implies ds
    | S_or2xor => map_defs transform_or2xor ds
    | S_or2and => map_defs (transform_or2and disable_or) ds
    | S_obvious => map_defs remove_obvious ds
    end.

  (* BoolOptimizerProfile.apply *)
  Definition apply_profile (steps : list step) (ds : defs) : defs :=
    fold_left (fun d st => apply_step st d) steps ds.
End Oracles.
