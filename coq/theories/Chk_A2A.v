(* Chk_A2A.v — what harness/c01_a2a.py evaluates inside coqc on every run.

   A case = the ORIGINAL function (as parsed by Python's ast, serialised into
   M_A2A's datatype) + what the REAL qlasskit.ast2ast.ast2ast produced on it
   (its statement list, or "it raised", or "its output is outside the datatype").

   chk_rewrite : model_rewrite(original) == implementation_output, EXACTLY
                 (structural equality of statement lists; raise <-> raise)
   chk_unmod   : the cases on which the model declines (Unmod) — counted, never dropped
   chk_eval    : the reference evaluator on the original and on the implementation's
                 output, for sample argument values, against each other and against
                 what CPython returned for the source function
   chk_stats   : counts for the evidence
   chk_guard   : the decidable guard of the theorem of P_A2A.v (how much of the corpus
                 it covers), and the instance of the theorem on every sample *)
From Coq Require Import List Bool NArith ZArith Arith String.
From QV Require Import M_A2A.
Import ListNotations.
Local Open Scope N_scope.

Inductive iobs := IOk (body : list stmt) | IRaise | IUnser.
Record acase := mkcase { c_fun : fundef; c_obs : iobs }.

Definition body_eqb : list stmt -> list stmt -> bool := list_eqb stmt_eqb.

(* 0 agree | 1 model Ok, code raises | 2 model raises, code Ok | 3 both Ok, different bodies
   | 4 the code's output cannot be serialised but the model has an answer | 9 model declines *)
Definition rewrite_code (c : acase) : N :=
  match a2a (c_fun c), c_obs c with
  | Unmod, _ => 9
  | Ok b, IOk b' => if body_eqb b b' then 0 else 3
  | Ok _, IRaise => 1
  | Raise, IOk _ => 2
  | Raise, IRaise => 0
  | _, IUnser => 4
  end.

Definition chk_rewrite (cs : list (N * acase)) : list N :=
  flat_map (fun p => let k := rewrite_code (snd p) in
                     if (k =? 0) || (k =? 9) then [] else [fst p * 10 + k]) cs.

Definition chk_unmod (cs : list (N * acase)) : list N :=
  flat_map (fun p => if rewrite_code (snd p) =? 9 then [fst p] else []) cs.

(* where the model first departs from the code, pass by pass (for diagnosis only):
   1 first ConstantFolder, 2 ReplaceMultiTargetAssign, 3 ASTRewriter, 4 last ConstantFolder *)
Definition res_code {A} (r : res A) : N := match r with Ok _ => 0 | Raise => 1 | Unmod => 2 end.
Definition chk_stages (cs : list (N * acase)) : list N :=
  map (fun p =>
         let f := c_fun (snd p) in
         fst p * 10000 +
         match fold_list (f_body f) with
         | Ok b1 => match multi_list b1 with
                    | Ok b2 => match rw_fun f b2 with
                               | Ok b3 => 4000 + res_code (fold_list b3)
                               | r => 3000 + res_code r
                               end
                    | r => 2000 + res_code r
                    end
         | r => 1000 + res_code r
         end) cs.

(* ------------------------------------------------------------------ *)
(* evaluation                                                          *)
(* ------------------------------------------------------------------ *)
(* calls that are not builtins have no value here: qlasskit's own types (QintN(...) objects
   wrap on + and -) are outside the exact regime the evaluator describes *)
Definition chk_ext (f : string) (vs : list val) : option val := None.

Definition sample : Type := list val * option val.   (* arguments; what CPython returned *)

Fixpoint bind_args (names : list string) (vs : list val) : list (string * val) :=
  match names, vs with
  | x :: r, v :: vs' => bind_args r vs' ++ [(x, v)]
  | _, _ => []
  end.

Definition env_for (f : fundef) (vs : list val) : env := env_of (bind_args (map fst (f_args f)) vs).

Definition oval_eqb (a b : option val) : bool :=
  match a, b with
  | Some x, Some y => val_eqb x y
  | None, None => true
  | _, _ => false
  end.

(* per sample:
   1 original and normalised both have a value and the values DIFFER
   2 the normalised program has a value different from what CPython returned  (the failing input)
   3 the evaluator gives the original a value different from CPython's         (evaluator wrong)
   4 the evaluator gives the original a value where CPython raised             (evaluator wrong) *)
Definition sample_codes (f : fundef) (b' : list stmt) (s : sample) : list N :=
  let rho := env_for f (fst s) in
  let r0 := run chk_ext (f_body f) rho in
  let r1 := run chk_ext b' rho in
  (match r0, r1 with Some x, Some y => if val_eqb x y then [] else [1] | _, _ => [] end) ++
  (match r1, snd s with Some x, Some y => if val_eqb x y then [] else [2] | _, _ => [] end) ++
  (match r0, snd s with
   | Some x, Some y => if val_eqb x y then [] else [3]
   | Some _, None => [4]
   | _, _ => []
   end).

Fixpoint lookupN {A} (l : list (N * A)) (k : N) : option A :=
  match l with
  | [] => None
  | (j, a) :: r => if j =? k then Some a else lookupN r k
  end.

Definition dedup (l : list N) : list N :=
  fold_right (fun x acc => if existsb (N.eqb x) acc then acc else x :: acc) [] l.

(* a Constant holding anything but a tuple of constants (e.g. a Name) is rejected by the
   translator ("Unable to infer type of constant"): such outputs are not accepted programs *)
Fixpoint closed_const (e : exp) : bool :=
  match e with
  | EConst _ => true
  | ETuple l => forallb closed_const l
  | _ => false
  end.
Fixpoint nodes_ok (e : exp) {struct e} : bool :=
  match e with
  | EName _ | EConst _ => true
  | EConstNode e' => closed_const e'
  | EBoolOp _ l | ETuple l | EList l | ECall _ l => forallb nodes_ok l
  | EBinOp _ a b | ECompare _ a b | ESubscript a b => nodes_ok a && nodes_ok b
  | EUnOp _ a => nodes_ok a
  | EIfExp c t f => nodes_ok c && nodes_ok t && nodes_ok f
  end.
Definition stmt_nodes_ok (s : stmt) : bool :=
  match s with
  | SAssign _ e | SAugAssign _ _ e | SReturn e | SExpr (Some e) => nodes_ok e
  | SExpr None => true
  | SIf _ _ _ | SFor _ _ _ _ => false
  end.

Definition chk_eval (cs : list (N * acase)) (ss : list (N * list sample)) : list N :=
  flat_map (fun p =>
              match c_obs (snd p), lookupN ss (fst p) with
              | IOk b', Some l =>
                  if forallb stmt_nodes_ok b' then
                    map (fun k => fst p * 10 + k) (dedup (flat_map (sample_codes (c_fun (snd p)) b') l))
                  else []
              | _, _ => []
              end) cs.

(* [samples; original has a value; normalised has a value; both; CPython has a value;
    original = CPython (both defined); normalised = CPython (both defined);
    normalised defined but original not; original defined but normalised not] *)
Definition add9 (a b : list N) : list N := map (fun p => fst p + snd p) (combine a b).
Definition b2n (b : bool) : N := if b then 1 else 0.
Definition isS {A} (o : option A) : bool := match o with Some _ => true | None => false end.
Definition sample_stats (f : fundef) (b' : list stmt) (s : sample) : list N :=
  let rho := env_for f (fst s) in
  let r0 := run chk_ext (f_body f) rho in
  let r1 := run chk_ext b' rho in
  [1; b2n (isS r0); b2n (isS r1); b2n (isS r0 && isS r1); b2n (isS (snd s));
   b2n (isS r0 && isS (snd s) && oval_eqb r0 (snd s));
   b2n (isS r1 && isS (snd s) && oval_eqb r1 (snd s));
   b2n (isS r1 && negb (isS r0)); b2n (isS r0 && negb (isS r1))].
Definition zero9 : list N := [0; 0; 0; 0; 0; 0; 0; 0; 0].
Definition chk_stats (cs : list (N * acase)) (ss : list (N * list sample)) : list N :=
  fold_left (fun acc p =>
               match c_obs (snd p), lookupN ss (fst p) with
               | IOk b', Some l =>
                   fold_left (fun acc s => add9 acc (sample_stats (c_fun (snd p)) b' s)) l acc
               | _, _ => acc
               end) cs zero9.

(* ------------------------------------------------------------------ *)
(* the theorems' guard and instances                                   *)
(* ------------------------------------------------------------------ *)
(* [programs inside a2a_guard; of those, rewritten (a2a = Ok); instances of a2a_backward
    checked (normalised program has a value on a sample); instances that FAIL; programs whose
    a2a output is not in normal form] ++ the ids of the failing programs *)
Definition guard_case (p : N * acase) (ss : list (N * list sample)) : list N * list N :=
  let f := c_fun (snd p) in
  let g := a2a_guard f in
  match a2a f with
  | Ok b' =>
      let nf := normal_form b' in
      let inst :=
        if g then
          match lookupN ss (fst p) with
          | Some l =>
              map (fun s => let rho := env_for f (fst s) in
                            if conforms_b f rho then
                              match run chk_ext b' rho with
                              | Some v => if oval_eqb (run chk_ext (f_body f) rho) (Some v) then 1 else 2
                              | None => 0
                              end
                            else 0) l
          | None => []
          end
        else [] in
      let checked := N.of_nat (List.length (filter (fun k => negb (k =? 0)) inst)) in
      let failed := N.of_nat (List.length (filter (fun k => k =? 2) inst)) in
      ([b2n g; b2n g; checked; failed; b2n (negb nf)],
       if (negb nf) || negb (failed =? 0) then [fst p] else [])
  | _ => ([b2n g; 0; 0; 0; 0], [])
  end.

Definition chk_guard (cs : list (N * acase)) (ss : list (N * list sample)) : list N :=
  let rs := map (fun p => guard_case p ss) cs in
  fold_left (fun acc r => map (fun q => fst q + snd q) (combine acc (fst r))) rs [0; 0; 0; 0; 0]
  ++ flat_map snd rs.
