(* Prop_C05.v — "Values survive the encode -> circuit -> decode round trip".
   Codec layer, for EVERY signature shape (any nesting of tuples) and value:
   the bit string produced for the arguments is the reversal of the flattened
   little-endian bits, and decoding the string read from the output qubits
   (return bit 0 last) inverts the encoding of the value. The circuit part
   (output qubit k holds return bit k) is property C02, decided per program. *)
From Coq Require Import List Bool NArith Arith.
From QV Require Import Bits M_Codec P_Codec.
Import ListNotations.
Local Open Scope N_scope.

Theorem C05_encode_input_places_bits : forall ts vs s,
  encode_input ts vs = Some s -> exists bits, encode_args ts vs = Some bits /\ s = rev bits /\
    forall k, (k < length bits)%nat -> nth (length bits - 1 - k) s false = nth k bits false.
Proof. exact encode_input_spec. Qed.
Print Assumptions C05_encode_input_places_bits.

Theorem C05_encode_args_length : forall ts vs bits,
  wf_list wf_val ts vs = true -> encode_args ts vs = Some bits ->
  length bits = list_sum (map ty_size ts).
Proof. exact encode_args_length. Qed.
Print Assumptions C05_encode_args_length.

Theorem C05_decode_inverts_encode : forall t v bits,
  wf_val t v = true -> val_to_bin t v = Some bits ->
  length bits = ty_size t /\ decode_output t (rev bits) = Some v.
Proof.
  intros t v bits Hwf Hv. split.
  - exact (proj1 (interpret_val_to_bin t v bits Hwf Hv)).
  - exact (decode_output_encode t v bits Hwf Hv).
Qed.
Print Assumptions C05_decode_inverts_encode.

Example C05_example :
  let ts := [TTuple [TQint 2; TBool]; TQfixed 1 2] in
  let vs := [VTuple [VInt 2; VBool true]; VFix (mkdy 5 2)] in
  wf_list wf_val ts vs = true /\
  encode_input ts vs = Some [true; false; true; true; true; false].
Proof. split; reflexivity. Qed.
