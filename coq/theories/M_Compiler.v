(* M_Compiler.v — executable model of the synthesiser of qlasskit:
     qlasskit/compiler/internalcompiler.py  InternalCompiler.compile, compile_expr,
        compile_symbol, compile_xor, compile_not, compile_and, compile_or
     qlasskit/compiler/expqmap.py           ExpQMap
     qlasskit/qcircuit/qcircuitenhanced.py  map_qubit, add_ancilla, get_free_ancilla,
        mark_ancilla, uncompute, uncompute_all, remove_identities
     qlasskit/qcircuit/qcircuit.py          add_qubit, append, x, cx, mcx,
        get_key_by_index, qubit_map (insertion ordered dict)
   transcribed function by function as a state-passing program, from /repo at
   commit 56a283c (compile_not flips in place only an ancilla that held no computed
   expression before; compile_or skips the MCX when its operands sit on one qubit).  No proofs here.

   Conventions.
   - Symbols are nat; symbols 0..n-1 are the argument bits (harness/ser.py SymTab).
     [is_temp s] / [is_ret s] say that the NAME of symbol s starts with "__" / "_ret".
   - Qubit names: NSym s, NAnc k ("anc_k"), NTrue ("TRUE"), NFalse ("FALSE").
   - A Python dict is an association list in insertion order: assignment to an
     existing key keeps its position, a new key goes last, del removes.
   - Python sets of qubit indices are duplicate-free lists.  Their iteration order
     is observable at exactly two sites, which read a CHOICE ORACLE (st_orc):
       OPop q  — the element returned by `available.pop()` in get_free_ancilla
                 (only consumed when `available` is not empty);
       OOrd l  — the list `list(set(erets))` of compile_and / compile_or.
     The model checks that the choice is legal (q in available; l a duplicate-free
     enumeration of the set) and fails with code 3 otherwise, so every theorem
     about the model holds for EVERY legal choice.  All other set iterations only
     add to sets, whose order is not observable.
   - Gate objects: remove_identities compares applied gates with ==, which for
     the gate component is object identity.  Every qc.x / qc.cx / qc.mcx call
     creates one gate object (cg_id, a counter); uncompute re-appends the same
     object.  uncompute_all appends deep copies; nothing observes identity after
     that point, the model keeps the ids.
   - sympy is an external library.  The only constructor call of the synthesiser
     is the n-ary Or rewrite Not(And( *[Not(e) for e in args])) of compile_or;
     its result (sympy flattens, sorts, drops duplicates, evaluates double
     negation) is supplied as a table [tbl] from the Or expression to the
     rewritten expression; a missing entry is error code 2 (unmodelled).
   - compile_expr recurses on sub-terms except through that rewrite: the model
     takes fuel (code 4 when exhausted; compile supplies enough, see [fuel_for]).
   - Error codes: 1 the implementation raises (CompilerException, KeyError,
     unsupported node), 2 unmodelled (hybrid quantum gate: not representable in
     bexp, reported by the harness; missing rewrite entry), 3 illegal or missing
     oracle choice, 4 fuel, 5 QCircuit.append raises (index range, duplicate qubit). *)
From Coq Require Import List Bool NArith Arith.
From QV Require Import Bexp BexpTT Circ Compiled.
Import ListNotations.

(* ---------- structural equality of expressions (sympy ==, dict keys) ---------- *)
Fixpoint ceqb (a b : bexp) : bool :=
  let go := fix go (l m : list bexp) : bool :=
    match l, m with
    | [], [] => true
    | x :: l', y :: m' => ceqb x y && go l' m'
    | _, _ => false
    end in
  match a, b with
  | BConst x, BConst y => Bool.eqb x y
  | BSym i, BSym j => Nat.eqb i j
  | BNot x, BNot y => ceqb x y
  | BAnd l, BAnd m => go l m
  | BOr l, BOr m => go l m
  | BXor l, BXor m => go l m
  | BIte c t e, BIte c' t' e' => ceqb c c' && ceqb t t' && ceqb e e'
  | BImp x y, BImp x' y' => ceqb x x' && ceqb y y'
  | _, _ => false
  end.

(* ---------- results ---------- *)
Inductive res (A : Type) := Ok (a : A) | Err (code : nat).
Arguments Ok {A} a. Arguments Err {A} code.
Definition bind {A B} (m : res A) (f : A -> res B) : res B :=
  match m with Ok a => f a | Err c => Err c end.
Notation "'let*' p ':=' c1 'in' c2" := (bind c1 (fun p => c2))
  (at level 61, p pattern, c1 at next level, right associativity).

(* ---------- names, gates, oracle, state ---------- *)
Inductive qname := NSym (s : nat) | NAnc (k : nat) | NTrue | NFalse.
Definition qname_eqb (a b : qname) : bool :=
  match a, b with
  | NSym i, NSym j => Nat.eqb i j
  | NAnc i, NAnc j => Nat.eqb i j
  | NTrue, NTrue => true
  | NFalse, NFalse => true
  | _, _ => false
  end.

Record cgate := mkcg { cg_id : nat; cg_kind : gk; cg_qs : list nat }.
Definition tgt (g : cgate) : nat := last (cg_qs g) 0.
Definition ctrls (g : cgate) : list nat := removelast (cg_qs g).
Definition to_gate (g : cgate) : gate := mkg (cg_kind g) (cg_qs g) None.

Inductive oev := OPop (q : nat) | OOrd (l : list nat).

Record cst := mkst {
  st_gates : list cgate;            (* QCircuit.gates, chronological *)
  st_comp : list cgate;             (* QCircuit.gates_computed *)
  st_nq : nat;                      (* num_qubits *)
  st_qmap : list (qname * nat);     (* qubit_map *)
  st_anc : list nat;                (* ancilla_lst *)
  st_free : list nat;               (* free_ancilla_lst *)
  st_res : list nat;                (* reserved_ancillas *)
  st_marked : list nat;             (* marked_ancillas *)
  st_cache : list (bexp * nat);     (* ExpQMap.exp_map *)
  st_next : nat;                    (* next gate object id *)
  st_orc : list oev }.              (* remaining oracle choices *)

Definition set_gates v st := mkst v (st_comp st) (st_nq st) (st_qmap st) (st_anc st) (st_free st) (st_res st) (st_marked st) (st_cache st) (st_next st) (st_orc st).
Definition set_comp v st := mkst (st_gates st) v (st_nq st) (st_qmap st) (st_anc st) (st_free st) (st_res st) (st_marked st) (st_cache st) (st_next st) (st_orc st).
Definition set_nq v st := mkst (st_gates st) (st_comp st) v (st_qmap st) (st_anc st) (st_free st) (st_res st) (st_marked st) (st_cache st) (st_next st) (st_orc st).
Definition set_qmap v st := mkst (st_gates st) (st_comp st) (st_nq st) v (st_anc st) (st_free st) (st_res st) (st_marked st) (st_cache st) (st_next st) (st_orc st).
Definition set_anc v st := mkst (st_gates st) (st_comp st) (st_nq st) (st_qmap st) v (st_free st) (st_res st) (st_marked st) (st_cache st) (st_next st) (st_orc st).
Definition set_free v st := mkst (st_gates st) (st_comp st) (st_nq st) (st_qmap st) (st_anc st) v (st_res st) (st_marked st) (st_cache st) (st_next st) (st_orc st).
Definition set_res v st := mkst (st_gates st) (st_comp st) (st_nq st) (st_qmap st) (st_anc st) (st_free st) v (st_marked st) (st_cache st) (st_next st) (st_orc st).
Definition set_marked v st := mkst (st_gates st) (st_comp st) (st_nq st) (st_qmap st) (st_anc st) (st_free st) (st_res st) v (st_cache st) (st_next st) (st_orc st).
Definition set_cache v st := mkst (st_gates st) (st_comp st) (st_nq st) (st_qmap st) (st_anc st) (st_free st) (st_res st) (st_marked st) v (st_next st) (st_orc st).
Definition set_next v st := mkst (st_gates st) (st_comp st) (st_nq st) (st_qmap st) (st_anc st) (st_free st) (st_res st) (st_marked st) (st_cache st) v (st_orc st).
Definition set_orc v st := mkst (st_gates st) (st_comp st) (st_nq st) (st_qmap st) (st_anc st) (st_free st) (st_res st) (st_marked st) (st_cache st) (st_next st) v.

(* ---------- sets of qubit indices ---------- *)
Definition sadd (q : nat) (l : list nat) : list nat := if mem_nat q l then l else l ++ [q].
Definition srem (q : nat) (l : list nat) : list nat := filter (fun x => negb (Nat.eqb x q)) l.
Definition sdiff (a b : list nat) : list nat := filter (fun x => negb (mem_nat x b)) a.
Fixpoint nodupb (l : list nat) : bool :=
  match l with [] => true | x :: r => negb (mem_nat x r) && nodupb r end.
(* the distinct elements of a list (used only when there is at most one) *)
Fixpoint dedup (l : list nat) : list nat :=
  match l with [] => [] | x :: r => if mem_nat x r then dedup r else x :: dedup r end.
(* list.remove(x): the first occurrence *)
Fixpoint remove_first (x : nat) (l : list nat) : list nat :=
  match l with [] => [] | y :: r => if Nat.eqb x y then r else y :: remove_first x r end.
Fixpoint list_nat_eqb (l m : list nat) : bool :=
  match l, m with
  | [], [] => true
  | x :: l', y :: m' => Nat.eqb x y && list_nat_eqb l' m'
  | _, _ => false
  end.

(* ---------- qubit_map: an insertion ordered dict ---------- *)
Fixpoint qm_get (m : list (qname * nat)) (k : qname) : option nat :=
  match m with
  | [] => None
  | (k', v) :: r => if qname_eqb k k' then Some v else qm_get r k
  end.
Fixpoint qm_set (m : list (qname * nat)) (k : qname) (v : nat) : list (qname * nat) :=
  match m with
  | [] => [(k, v)]
  | (k', v') :: r => if qname_eqb k k' then (k, v) :: r else (k', v') :: qm_set r k v
  end.
Definition qm_del (m : list (qname * nat)) (k : qname) : list (qname * nat) :=
  filter (fun kv => negb (qname_eqb k (fst kv))) m.
(* QCircuit.get_key_by_index: the most recently inserted key with that value *)
Definition key_by_index (m : list (qname * nat)) (i : nat) : option qname :=
  match find (fun kv => Nat.eqb (snd kv) i) (rev m) with
  | Some kv => Some (fst kv)
  | None => None
  end.

(* ---------- ExpQMap ---------- *)
Fixpoint cache_get (c : list (bexp * nat)) (e : bexp) : option nat :=
  match c with
  | [] => None
  | (e', q) :: r => if ceqb e e' then Some q else cache_get r e
  end.
Definition cache_mem (c : list (bexp * nat)) (e : bexp) : bool :=
  match cache_get c e with Some _ => true | None => false end.
(* ExpQMap.remove(qubits) *)
Definition cache_remove (qs : list nat) (c : list (bexp * nat)) : list (bexp * nat) :=
  filter (fun eq => negb (mem_nat (snd eq) qs)) c.
(* ExpQMap.__setitem__: evict whatever was recorded on the qubit, then bind the
   key (the position of a key in exp_map is not observable) *)
Definition cache_set (e : bexp) (q : nat) (c : list (bexp * nat)) : list (bexp * nat) :=
  filter (fun eq => negb (ceqb e (fst eq))) (cache_remove [q] c) ++ [(e, q)].

(* ---------- QCircuit ---------- *)
(* add_qubit(name) *)
Definition add_qubit (nm : qname) (st : cst) : nat * cst :=
  (st_nq st, set_nq (S (st_nq st)) (set_qmap (qm_set (st_qmap st) nm (st_nq st)) st)).

(* append(gate, qubits) for an existing gate object *)
Definition append_obj (g : cgate) (st : cst) : res cst :=
  if forallb (fun x => Nat.ltb x (st_nq st)) (cg_qs g) && nodupb (cg_qs g)
  then Ok (set_comp (st_comp st ++ [g]) (set_gates (st_gates st ++ [g]) st))
  else Err 5.
(* a gate constructor call followed by append *)
Definition append_new (k : gk) (qs : list nat) (st : cst) : res cst :=
  append_obj (mkcg (st_next st) k qs) (set_next (S (st_next st)) st).
Definition g_x (w : nat) := append_new (K1 BX) [w].
Definition g_cx (w1 w2 : nat) := append_new KCX [w1; w2].
Definition g_mcx (wl : list nat) (t : nat) := append_new (KMCX (length wl)) (wl ++ [t]).

(* ---------- QCircuitEnhanced ---------- *)
Definition map_qubit (nm : qname) (index : nat) (promote : bool) (st : cst) : cst :=
  let S1 :=
    if promote && mem_nat index (st_anc st) then
      let S0 := set_anc (srem index (st_anc st)) st in
      match key_by_index (st_qmap S0) index with
      | Some k => set_qmap (qm_del (st_qmap S0) k) S0
      | None => S0            (* the bare except: pass *)
      end
    else st in
  set_qmap (qm_set (st_qmap S1) nm index) S1.

Definition add_ancilla (is_free : bool) (st : cst) : nat * cst :=
  let '(i, S1) := add_qubit (NAnc (length (st_anc st))) st in
  let S2 := set_anc (sadd i (st_anc S1)) S1 in
  (i, if is_free then set_free (sadd i (st_free S2)) S2 else S2).

Definition get_free_ancilla (st : cst) : res (nat * cst) :=
  let available := sdiff (st_free st) (st_res st) in
  match available with
  | [] => Ok (add_ancilla false st)
  | _ => match st_orc st with
         | OPop q :: o' =>
             if mem_nat q available then Ok (q, set_orc o' (set_free (srem q (st_free st)) st)) else Err 3
         | _ => Err 3
         end
  end.

Definition mark_ancilla (w : nat) (st : cst) : cst :=
  if mem_nat w (st_anc st) then set_marked (sadd w (st_marked st)) st else st.

(* the `changed` loops of uncompute / uncompute_all: one pass over the gates,
   repeated until nothing is added (at most one more pass than there are qubits) *)
Definition close_pass (ok : nat -> bool) (gs : list cgate) (sn : list nat) : list nat :=
  fold_left (fun sn g =>
    if mem_nat (tgt g) sn
    then fold_left (fun s c => if ok c then sadd c s else s) (ctrls g) sn
    else sn) gs sn.
Fixpoint close_iter (k : nat) (ok : nat -> bool) (gs : list cgate) (sn : list nat) : list nat :=
  match k with
  | O => sn
  | S k' => let sn' := close_pass ok gs sn in
            if Nat.eqb (length sn') (length sn) then sn else close_iter k' ok gs sn'
  end.

(* uncompute(): returns the set `uncomputed`.  [act] is marked_ancillas - blocked:
   a marked ancilla one of whose computing gates is controlled by an ancilla that
   has been cleaned in the meantime is left to uncompute_all *)
Definition uncompute_with (blocked : list nat) (st : cst) : res (list nat * cst) :=
  match st_marked st with
  | [] => Ok ([], st)
  | _ =>
    let marked := st_marked st in
    let act := sdiff marked blocked in
    let rc := rev (st_comp st) in
    let replay := filter (fun g => mem_nat (tgt g) act) rc in
    let new_gates_comp := filter (fun g => negb (mem_nat (tgt g) act)) rc in
    let uncomputed := fold_left (fun u g => sadd (tgt g) u) replay [] in
    let* S1 := fold_left (fun r g => let* st' := r in append_obj g st') replay (Ok st) in
    let still0 := fold_left (fun s g => fold_left (fun s c => sadd c s) (ctrls g) s) new_gates_comp [] in
    let still := close_iter (S (st_nq S1)) (fun _ => true) (st_gates S1) still0 in
    let free' := fold_left (fun f x => sadd x f) act (st_free S1) in
    let res' := fold_left (fun r x => if mem_nat x still then sadd x r else r) act (st_res S1) in
    Ok (uncomputed,
        set_comp (rev new_gates_comp)
          (set_marked (sdiff marked uncomputed) (set_res res' (set_free free' S1))))
  end.
Definition blocked_of (st : cst) : list nat :=
  fold_left (fun b g =>
    if mem_nat (tgt g) (st_marked st) && existsb (fun c => mem_nat c (st_free st)) (ctrls g)
    then sadd (tgt g) b else b) (st_comp st) [].
Definition uncompute (st : cst) : res (list nat * cst) := uncompute_with (blocked_of st) st.

(* uncompute_all(keep) *)
Definition uncompute_all (keep : list nat) (st : cst) : res cst :=
  let gs := st_gates st in
  let free := st_free st in
  let unc0 := fold_left (fun u g =>
     if negb (mem_nat (tgt g) keep) && negb (mem_nat (tgt g) free) then sadd (tgt g) u else u) gs [] in
  let unc := close_iter (S (st_nq st)) (fun c => mem_nat c free && negb (mem_nat c keep)) gs unc0 in
  let replay := filter (fun g => mem_nat (tgt g) unc) (rev gs) in
  let* S1 := fold_left (fun r g => let* st' := r in append_obj g st') replay (Ok st) in
  let free' := fold_left (fun f q => if mem_nat q (st_anc S1) then sadd q f else f) unc (st_free S1) in
  Ok (set_free free' S1).

(* remove_identities(): the compiler never emits barriers, so only the first
   branch of the loop can fire *)
Definition cancels (a b : cgate) : bool :=
  Nat.eqb (cg_id a) (cg_id b) && list_nat_eqb (cg_qs a) (cg_qs b).
Fixpoint rm_id (l : list cgate) : list cgate :=
  match l with
  | [] => []
  | a :: t => match t with
              | [] => [a]
              | b :: r => if cancels a b then rm_id r else a :: rm_id t
              end
  end.

(* ---------- InternalCompiler ---------- *)
Definition ret1 {A} (a : A) (st : cst) : res (A * cst) := Ok (a, st).
Definition upd_cache (f : list (bexp * nat) -> list (bexp * nat)) (st : cst) : cst :=
  set_cache (f (st_cache st)) st.
Definition qc_get (st : cst) (nm : qname) : res nat :=
  match qm_get (st_qmap st) nm with Some q => Ok q | None => Err 1 end.

(* legal value of list(set(erets)) *)
Definition enumerates (l erets : list nat) : bool :=
  nodupb l && forallb (fun x => mem_nat x erets) l && forallb (fun x => mem_nat x l) erets.
Definition take_order (erets : list nat) (st : cst) : res (list nat * cst) :=
  match st_orc st with
  | OOrd l :: o' => if enumerates l erets then Ok (l, set_orc o' st) else Err 3
  | _ => Err 3
  end.

(* The n-ary Or rewrite.  sympy evaluates Not(Not x) to x and Not(constant) to the
   other constant [sneg]; And flattens nested And, drops duplicates and sorts.
   The table entry for Or(l) is accepted only when it has the shape
   Not(And(m)) with m and the flattened [map sneg l] equal AS SETS (which makes
   it equivalent to Or(l), P_Compiler.or_valid_sound); any other shape the
   library may produce (collapsed constants, a single conjunct) is code 2. *)
Definition sneg (e : bexp) : bexp :=
  match e with
  | BNot x => x
  | BConst b => BConst (negb b)
  | _ => BNot e
  end.
Fixpoint flat_and (e : bexp) : list bexp :=
  match e with
  | BAnd m => flat_map flat_and m
  | _ => [e]
  end.
Definition bmem (e : bexp) (l : list bexp) : bool := existsb (ceqb e) l.
Definition bsubset (a b : list bexp) : bool := forallb (fun e => bmem e b) a.
Definition or_valid (l : list bexp) (e' : bexp) : bool :=
  match e' with
  | BNot (BAnd m) =>
      let a := flat_map flat_and (map sneg l) in
      let b := flat_map flat_and m in
      bsubset a b && bsubset b a
  | _ => false
  end.
Definition or_lookup (tbl : list (bexp * bexp)) (e : bexp) (l : list bexp) : option bexp :=
  match find (fun p => ceqb e (fst p)) tbl with
  | Some p => if or_valid l (snd p) then Some (snd p) else None
  | None => None
  end.

Section Body.
  Variable n : nat.                          (* number of argument bits *)
  Variable tbl : list (bexp * bexp).         (* n-ary Or rewrite, computed by sympy *)
  (* the recursive calls: compile_expr(qc, e, dest) — `sym` is never passed down *)
  Variable rec : bexp -> option nat -> cst -> res (nat * cst).

  Fixpoint map_rec (l : list bexp) (st : cst) : res (list nat * cst) :=
    match l with
    | [] => Ok ([], st)
    | e :: r => let* (q, S1) := rec e None st in
                let* (qs, S2) := map_rec r S1 in
                Ok (q :: qs, S2)
    end.

  Definition get_dest (dest : option nat) (st : cst) : res (nat * cst) :=
    match dest with Some d => Ok (d, st) | None => get_free_ancilla st end.
  Definition is_none {A} (o : option A) : bool := match o with None => true | Some _ => false end.

  Definition c_and (e : bexp) (args : list bexp) (dest : option nat) (st : cst) : res (nat * cst) :=
    let* (erets, S1) := map_rec args st in
    let* (d, S2) := get_dest dest S1 in
    let erets1 := if mem_nat d erets then remove_first d erets else erets in
    let* (l, S3) := take_order erets1 S2 in
    let* S4 := g_mcx l d S3 in
    let S5 := fold_left (fun st q => mark_ancilla q st) l S4 in
    Ok (d, if is_none dest then upd_cache (cache_set e d) S5 else S5).

  Definition c_or (e : bexp) (args : list bexp) (dest : option nat) (st : cst) : res (nat * cst) :=
    if Nat.ltb 2 (length args) then
      match or_lookup tbl e args with
      | Some e' => rec e' dest st
      | None => Err 2
      end
    else
    let* (erets, S1) := map_rec args st in
    let* (d, S2) := get_dest dest S1 in
    let erets1 := if mem_nat d erets then remove_first d erets else erets in
    (* list(set(erets)): with at most one distinct element the order is determined
       (and no mcx call shows it to the harness); otherwise it is an oracle choice *)
    let* (l, S3) := if Nat.leb (length (dedup erets1)) 1 then Ok (dedup erets1, S2)
                    else take_order erets1 S2 in
    let* S3' := fold_left (fun r i => let* st' := r in g_cx i d st') l (Ok S3) in
    (* if len(erets) > 1: qc.mcx(erets, dest) *)
    let* S4 := if Nat.ltb 1 (length l) then g_mcx l d S3' else Ok S3' in
    let S5 := fold_left (fun st q => mark_ancilla q st) l S4 in
    Ok (d, if is_none dest then upd_cache (cache_set e d) S5 else S5).

  (* sym = Some (symbol, name starts with "_ret") at the top-level call only *)
  (* isinstance(expr.args[0], Symbol) and sym is not None and expr.args[0].name == sym.name *)
  Definition self_not (a : bexp) (sym : option (nat * bool)) : bool :=
    match a, sym with
    | BSym s, Some (s', _) => Nat.eqb s s'
    | _, _ => false
    end.

  Definition c_not (e a : bexp) (dest : option nat) (sym : option (nat * bool)) (st : cst) : res (nat * cst) :=
    if self_not a sym then
      match sym with
      | Some (s', _) => let* iret := qc_get st (NSym s') in
                        let* S1 := g_x iret st in Ok (iret, S1)
      | None => Err 1
      end
    else
    (* computed_qubits = set(self.expqmap.exp_map.values()), before compiling the operand *)
    let computed_qubits := map snd (st_cache st) in
    let* (eret, S1) := rec a None st in
    if mem_nat eret (st_anc S1) && negb (mem_nat eret computed_qubits) && is_none dest then
      let* S2 := g_x eret S1 in
      Ok (eret, upd_cache (cache_set e eret) S2)
    else
      let* (d, S2) := get_dest dest S1 in
      let* S3 := g_cx eret d S2 in
      let* S4 := g_x d S3 in
      let S5 := mark_ancilla eret S4 in
      Ok (d, if is_none dest then upd_cache (cache_set e d) S5 else S5).

  Definition is_sym (e : bexp) : bool := match e with BSym _ => true | _ => false end.

  Fixpoint xor_args (args : list bexp) (d : nat) (st : cst) : res (nat * cst) :=
    match args with
    | [] => Ok (d, st)
    | e :: r =>
      let* (d', st') :=
        match e with
        | BSym s => let* q := qc_get st (NSym s) in
                    if Nat.eqb q d then Ok (d, st)
                    else let* S1 := g_cx q d st in Ok (d, S1)
        | BNot a => if is_sym a then rec e (Some d) st
                    else let* (d1, S1) := rec a (Some d) st in
                         let* S2 := g_x d1 S1 in Ok (d1, S2)
        | _ => rec e (Some d) st
        end in
      xor_args r d' st'
    end.

  Definition c_xor (e : bexp) (args : list bexp) (dest : option nat) (st : cst) : res (nat * cst) :=
    let* (d0, S0) := get_dest dest st in
    let* (d, S1) := xor_args args d0 S0 in
    Ok (d, if is_none dest then upd_cache (cache_set e d) S1 else S1).

  Definition c_symbol (s : nat) (sym : option (nat * bool)) (st : cst) : res (nat * cst) :=
    match sym with
    | Some (s', true) =>
        (* the expr is an input, or another name of an input qubit *)
        if Nat.ltb s n || match qm_get (st_qmap st) (NSym s) with Some q => Nat.ltb q n | None => false end then
          let '(iret, S1) := add_qubit (NSym s') st in
          let* src := qc_get S1 (NSym s) in
          let* S2 := g_cx src iret S1 in Ok (iret, S2)
        else let* q := qc_get st (NSym s) in Ok (q, st)
    | _ => let* q := qc_get st (NSym s) in Ok (q, st)
    end.

  Definition c_expr (e : bexp) (dest : option nat) (sym : option (nat * bool)) (st : cst) : res (nat * cst) :=
    match e with
    | BConst false =>
        let S1 := match qm_get (st_qmap st) NFalse with Some _ => st | None => snd (add_qubit NFalse st) end in
        let* q := qc_get S1 NFalse in Ok (q, S1)
    | BConst true =>
        match qm_get (st_qmap st) NTrue with
        | Some q => Ok (q, st)
        | None => let '(q, S1) := add_qubit NTrue st in
                  let* S2 := g_x q S1 in Ok (q, S2)
        end
    | BSym s => c_symbol s sym st
    | _ =>
      match cache_get (st_cache st) e with
      | Some iret =>
          match dest with
          | Some d => if negb (Nat.eqb iret d)
                      then let* S1 := g_cx iret d st in Ok (d, mark_ancilla iret S1)
                      else Ok (iret, st)
          | None => Ok (iret, st)
          end
      | None =>
          match e with
          | BXor l => c_xor e l dest st
          | BNot a => c_not e a dest sym st
          | BAnd l => c_and e l dest st
          | BOr l => c_or e l dest st
          | _ => Err 1
          end
      end
    end.
End Body.

Fixpoint cexpr (fuel n : nat) (tbl : list (bexp * bexp)) (e : bexp) (dest : option nat) (st : cst) : res (nat * cst) :=
  match fuel with
  | O => Err 4
  | S f => c_expr n tbl (cexpr f n tbl) e dest None st
  end.

(* size of an expression, and fuel sufficient for compile_expr on it: every level
   of the tree costs at most four calls (Or -> Not -> And -> Not -> operand) *)
Fixpoint bsize (e : bexp) : nat :=
  match e with
  | BConst _ | BSym _ => 1
  | BNot a => S (bsize a)
  | BAnd l | BOr l | BXor l => S (fold_right (fun x acc => bsize x + acc) 0 l)
  | BIte c t f => S (bsize c + bsize t + bsize f)
  | BImp a b => S (bsize a + bsize b)
  end.
Definition fuel_for (e : bexp) : nat := 4 * bsize e + 8.

Definition init_state (n : nat) (orc : list oev) : cst :=
  mkst [] [] n (map (fun i => (NSym i, i)) (seq 0 n)) [] [] [] [] [] 0 orc.

(* one iteration of the loop of InternalCompiler.compile *)
Definition compile_stmt (n : nat) (tbl : list (bexp * bexp)) (is_temp is_ret : nat -> bool)
    (se : nat * bexp) (st : cst) : res cst :=
  let '(s, e) := se in
  let* (iret, S1) := c_expr n tbl (cexpr (fuel_for e) n tbl) e None (Some (s, is_ret s)) st in
  let S2 := upd_cache (cache_set (BSym s) iret) S1 in
  let S3 := map_qubit (NSym s) iret (negb (is_temp s)) S2 in
  let* (unc, S4) := uncompute S3 in
  Ok (upd_cache (cache_remove unc) S4).

Definition compile_loop n tbl is_temp is_ret (ds : defs) (st : cst) : res cst :=
  fold_left (fun r se => let* st' := r in compile_stmt n tbl is_temp is_ret se st') ds (Ok st).

(* InternalCompiler.compile; rets = None when `returns is None` *)
Definition compile (n : nat) (tbl : list (bexp * bexp)) (is_temp is_ret : nat -> bool)
    (ds : defs) (uncomp : bool) (rets : option (list nat)) (orc : list oev) : res cst :=
  let* st := compile_loop n tbl is_temp is_ret ds (init_state n orc) in
  let S1 := set_gates (rm_id (st_gates st)) st in
  match uncomp, rets with
  | true, Some rs =>
      let keep := flat_map (fun r => match qm_get (st_qmap S1) (NSym r) with Some q => [q] | None => [] end) rs in
      uncompute_all keep S1
  | _, _ => Ok S1
  end.

(* the circuit before identity removal and final uncomputation (what the
   theorems about the synthesis proper speak about) *)
Definition compile_raw n tbl is_temp is_ret (ds : defs) (orc : list oev) : res cst :=
  compile_loop n tbl is_temp is_ret ds (init_state n orc).

Definition out_gates (st : cst) : circuit := map to_gate (st_gates st).
