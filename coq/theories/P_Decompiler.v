(* P_Decompiler.v — theorems about the model of the decompiler (M_Decompiler.v):
   exps_sound      the expressions of a section describe its gates on every entry state
   sections_exact  the reported sections are exactly the maximal runs of classical gates
   plus the facts the optimizer model (C12) needs: sections are sorted, disjoint,
   inside the circuit, and hold no more gates than their index range. *)
From Coq Require Import List Bool NArith Arith Lia.
From QV Require Import Bexp BexpTT Circ M_Decompiler.
Import ListNotations.

(* ====================================================================== *)
(* 1. expressions of a section                                             *)
(* ====================================================================== *)

Lemma eget_eset m q e q' :
  eget (eset m q e) q' = if Nat.eqb q q' then Some e else eget m q'.
Proof.
  induction m as [|[k v] r IH]; cbn [eset eget].
  - destruct (Nat.eqb q q'); reflexivity.
  - destruct (Nat.eqb_spec k q) as [->|Hkq]; cbn [eget].
    + destruct (Nat.eqb q q'); reflexivity.
    + destruct (Nat.eqb_spec k q') as [->|Hkq'].
      * destruct (Nat.eqb_spec q q'); [congruence|reflexivity].
      * exact IH.
Qed.

Lemma egetd_eset m q e q' :
  egetd (eset m q e) q' = if Nat.eqb q q' then e else egetd m q'.
Proof. unfold egetd. rewrite eget_eset. destruct (Nat.eqb q q'); reflexivity. Qed.

Lemma eget_app_own m q q' :
  eget (m ++ [(q, BSym q)]) q' =
  match eget m q' with Some x => Some x | None => if Nat.eqb q q' then Some (BSym q) else None end.
Proof.
  induction m as [|[k v] r IH]; cbn [app eget]; [reflexivity|].
  destruct (Nat.eqb k q'); [reflexivity|exact IH].
Qed.

Lemma egetd_check_or_add w : forall m q, egetd (check_or_add m w) q = egetd m q.
Proof.
  unfold check_or_add. induction w as [|a w IH]; intros m q; cbn [fold_left]; [reflexivity|].
  rewrite IH. destruct (eget m a) eqn:Ea; [reflexivity|].
  unfold egetd. rewrite eget_app_own. destruct (eget m q); [reflexivity|].
  destruct (Nat.eqb_spec a q) as [->|]; reflexivity.
Qed.

(* keys stay distinct *)
Definition keys (m : emap) : list nat := map fst m.

Lemma eget_none_notin m q : eget m q = None <-> ~ In q (keys m).
Proof.
  induction m as [|[k v] r IH]; cbn [eget keys map fst In]; [tauto|].
  destruct (Nat.eqb_spec k q) as [->|Hk].
  - split; [discriminate|]. intros H. exfalso. apply H. now left.
  - rewrite IH. unfold keys. tauto.
Qed.

Lemma keys_eset m q e : keys (eset m q e) = if existsb (Nat.eqb q) (keys m) then keys m else keys m ++ [q].
Proof.
  induction m as [|[k v] r IH]; cbn [eset keys map fst existsb app]; [reflexivity|].
  destruct (Nat.eqb_spec k q) as [->|Hk].
  - cbn [map fst]. now rewrite Nat.eqb_refl.
  - cbn [map fst]. destruct (Nat.eqb_spec q k); [congruence|]. cbn [orb].
    fold (keys r). fold (keys (eset r q e)). rewrite IH. destruct (existsb (Nat.eqb q) (keys r)); reflexivity.
Qed.

Lemma existsb_eqb_in q l : existsb (Nat.eqb q) l = true <-> In q l.
Proof.
  rewrite existsb_exists. split.
  - intros (y & Hy & He). apply Nat.eqb_eq in He. now subst.
  - intros H. exists q. split; [exact H|apply Nat.eqb_refl].
Qed.

Lemma nodup_snoc (l : list nat) q : NoDup l -> ~ In q l -> NoDup (l ++ [q]).
Proof.
  intros Hn Hq. induction Hn as [|x l Hx Hn IH]; cbn [app].
  - constructor; [intros []|constructor].
  - constructor.
    + rewrite in_app_iff. intros [H|[H|[]]]; [contradiction|]. subst. apply Hq. now left.
    + apply IH. intros H. apply Hq. now right.
Qed.

Lemma nodup_eset m q e : NoDup (keys m) -> NoDup (keys (eset m q e)).
Proof.
  intros H. rewrite keys_eset. destruct (existsb (Nat.eqb q) (keys m)) eqn:E; [exact H|].
  apply nodup_snoc; [exact H|]. intros Hin. apply existsb_eqb_in in Hin. congruence.
Qed.

Lemma nodup_check_or_add w : forall m, NoDup (keys m) -> NoDup (keys (check_or_add m w)).
Proof.
  unfold check_or_add. induction w as [|a w IH]; intros m H; cbn [fold_left]; [exact H|].
  apply IH. destruct (eget m a) eqn:Ea; [exact H|].
  unfold keys. rewrite map_app. cbn [map fst]. apply nodup_snoc; [exact H|].
  now apply eget_none_notin.
Qed.

Lemma in_eget m q e : NoDup (keys m) -> In (q, e) m -> eget m q = Some e.
Proof.
  induction m as [|[k v] r IH]; intros Hn Hin; [destruct Hin|].
  cbn [keys map fst] in Hn. inversion Hn as [|x l Hx Hn' Heq]; subst.
  cbn [eget]. destruct Hin as [Heq|Hin].
  - injection Heq as -> ->. now rewrite Nat.eqb_refl.
  - destruct (Nat.eqb_spec k q) as [->|Hk]; [|now apply IH].
    exfalso. apply Hx. change q with (fst (q, e)). now apply in_map.
Qed.

Lemma eget_in m q e : eget m q = Some e -> In (q, e) m.
Proof.
  induction m as [|[k v] r IH]; cbn [eget]; [discriminate|].
  destruct (Nat.eqb_spec k q) as [->|Hk].
  - intros H. injection H as ->. now left.
  - intros H. right. now apply IH.
Qed.

(* the symbolic state [m] describes the concrete state [h] reached from entry state [f] *)
Definition rel (f : nat -> bool) (m : emap) (h : nat -> bool) : Prop :=
  forall q, beval f (egetd m q) = h q.

Lemma rel_init f : rel f [] f.
Proof. intros q. reflexivity. Qed.

Lemma forallb_rel f m h cs : rel f m h -> forallb (beval f) (map (egetd m) cs) = forallb h cs.
Proof.
  intros H. induction cs as [|c cs IH]; cbn [map forallb]; [reflexivity|]. now rewrite H, IH.
Qed.

Lemma rel_flip f m h cs t :
  rel f m h ->
  rel f (eset m t (BXor [BAnd (map (egetd m) cs); egetd m t])) (fflip h cs t).
Proof.
  intros H q. rewrite egetd_eset. unfold fflip. rewrite (Nat.eqb_sym q t).
  destruct (Nat.eqb t q); [|apply H].
  rewrite beval_xor. cbn [map fold_right]. rewrite beval_and, (forallb_rel f m h cs H), H.
  rewrite xorb_false_r. apply xorb_comm.
Qed.

Lemma rel_add f m h w : rel f m h -> rel f (check_or_add m w) h.
Proof. intros H q. rewrite egetd_check_or_add. apply H. Qed.

(* one gate: the symbolic update is the classical action of the gate *)
Lemma exps_step_sound f m g m' h :
  exps_step false m g = Ok m' -> rel f m h ->
  match cact_of g with
  | CFlip cs t => rel f m' (fflip h cs t)
  | CId => rel f m' h
  | CNone => False
  end.
Proof.
  intros Hs Hr. unfold exps_step in Hs.
  pose proof (rel_add f m h (gqs g) Hr) as Hr1.
  set (m1 := check_or_add m (gqs g)) in *.
  destruct g as [k qs p]. cbn [gkind gqs] in *. unfold cact_of. cbn [gkind gqs].
  destruct k as [b| | | | |n|b n| | ].
  - destruct b; try discriminate.
    + (* I *) destruct qs as [|a [|? ?]]; try discriminate. injection Hs as <-. exact Hr1.
    + (* X *) destruct qs as [|t [|? ?]]; try discriminate. injection Hs as <-.
      cbn [x_controls length Nat.eqb removelast last].
      intros q. rewrite egetd_eset. unfold fflip. rewrite (Nat.eqb_sym q t).
      destruct (Nat.eqb t q); [|apply Hr1].
      rewrite beval_not, Hr1. cbn [forallb]. now destruct (h t).
  - (* CX *) destruct qs as [|c [|t [|? ?]]]; try discriminate. injection Hs as <-.
    cbn [x_controls length Nat.eqb removelast last].
    intros q. rewrite egetd_eset. unfold fflip. rewrite (Nat.eqb_sym q t).
    destruct (Nat.eqb t q); [|apply Hr1].
    rewrite beval_xor. cbn [map fold_right forallb]. rewrite !Hr1.
    rewrite xorb_false_r, andb_true_r. apply xorb_comm.
  - (* CZ *) destruct qs as [|? [|? [|? ?]]]; discriminate.
  - (* CP *) destruct qs as [|? [|? [|? ?]]]; discriminate.
  - (* CCX *) destruct qs as [|a [|b [|t [|? ?]]]]; try discriminate. injection Hs as <-.
    cbn [x_controls length Nat.eqb removelast last].
    apply (rel_flip f m1 h [a; b] t Hr1).
  - (* MCX *) destruct (Nat.eqb (length qs) (S n)) eqn:E; [|discriminate]. injection Hs as <-.
    cbn [x_controls]. rewrite E. apply (rel_flip f m1 h _ _ Hr1).
  - (* MCtrl *) destruct b, qs as [|? [|? [|? ?]]]; discriminate.
  - (* Barrier *) injection Hs as <-. exact Hr1.
  - (* Nop *) injection Hs as <-. exact Hr1.
Qed.

Lemma exps_step_nodup old m g m' : exps_step old m g = Ok m' -> NoDup (keys m) -> NoDup (keys m').
Proof.
  intros Hs Hn. unfold exps_step in Hs.
  pose proof (nodup_check_or_add (gqs g) m Hn) as Hn1.
  set (m1 := check_or_add m (gqs g)) in *.
  destruct g as [k qs p]. cbn [gkind gqs] in *.
  destruct k as [b| | | | |n|b n| | ].
  - destruct b; try (destruct qs as [|? [|? ?]]; discriminate).
    + destruct qs as [|a [|? ?]]; try discriminate. destruct old; [discriminate|]. now injection Hs as <-.
    + destruct qs as [|t [|? ?]]; try discriminate. injection Hs as <-. now apply nodup_eset.
  - destruct qs as [|c [|t [|? ?]]]; try discriminate. injection Hs as <-. now apply nodup_eset.
  - destruct qs as [|? [|? [|? ?]]]; discriminate.
  - destruct qs as [|? [|? [|? ?]]]; discriminate.
  - destruct qs as [|a [|b [|t [|? ?]]]]; try discriminate. injection Hs as <-. now apply nodup_eset.
  - destruct (Nat.eqb (length qs) (S n)); [|discriminate]. injection Hs as <-. now apply nodup_eset.
  - destruct b, qs as [|? [|? [|? ?]]]; discriminate.
  - now injection Hs as <-.
  - now injection Hs as <-.
Qed.

Lemma exps_run_sound f gs : forall m m' h,
  exps_run false m gs = Ok m' -> rel f m h -> NoDup (keys m) ->
  exists h', fsim h gs = Some h' /\ rel f m' h' /\ NoDup (keys m').
Proof.
  induction gs as [|g gs IH]; intros m m' h Hrun Hr Hn; cbn [exps_run fsim] in *.
  - injection Hrun as <-. now exists h.
  - destruct (exps_step false m g) as [m1|c] eqn:Es; [|discriminate].
    pose proof (exps_step_sound f m g m1 h Es Hr) as Hstep.
    pose proof (exps_step_nodup false m g m1 Es Hn) as Hn1.
    destruct (cact_of g) as [cs t| |]; [| |contradiction]; eapply IH; eauto.
Qed.

(* exps_sound: for EVERY gate list on which __exps_of_section returns, and EVERY
   entry state f, the gates are classical and
   - each listed expression, evaluated on the entry state, is the exit value of its qubit,
   - every qubit without an expression is unchanged. *)
Theorem exps_sound_thm : forall gs L, exps_of_section gs = Ok L ->
  forall f : nat -> bool,
  exists f', fsim f gs = Some f' /\
    (forall q e, In (q, e) L -> beval f e = f' q) /\
    (forall q, (forall e, ~ In (q, e) L) -> f' q = f q).
Proof.
  intros gs L H f. unfold exps_of_section, exps_of_section_gen in H.
  destruct (exps_run false [] gs) as [m|c] eqn:Er; [|discriminate]. injection H as <-.
  destruct (exps_run_sound f gs [] m f Er (rel_init f) (NoDup_nil _)) as (f' & Hf & Hr & Hn).
  exists f'. split; [exact Hf|]. split.
  - intros q e Hin. unfold drop_own in Hin. apply filter_In in Hin as [Hin _].
    specialize (Hr q). unfold egetd in Hr. now rewrite (in_eget m q e Hn Hin) in Hr.
  - intros q Hno. specialize (Hr q). unfold egetd in Hr.
    destruct (eget m q) as [e|] eqn:Eg; [|now rewrite <- Hr].
    apply eget_in in Eg. destruct (is_own q e) eqn:Eo.
    + destruct e; try discriminate. cbn [is_own] in Eo. apply Nat.eqb_eq in Eo. subst. now rewrite <- Hr.
    + exfalso. apply (Hno e). unfold drop_own. apply filter_In. split; [exact Eg|]. cbn [fst snd]. now rewrite Eo.
Qed.

(* the listed qubits are distinct, so "the expression of a qubit" is well defined *)
Lemma exps_keys_nodup gs L : exps_of_section gs = Ok L -> NoDup (keys L).
Proof.
  intros H. unfold exps_of_section, exps_of_section_gen in H.
  destruct (exps_run false [] gs) as [m|c] eqn:Er; [|discriminate]. injection H as <-.
  destruct (exps_run_sound (fun _ => false) gs [] m _ Er (rel_init _) (NoDup_nil _)) as (f' & _ & _ & Hn).
  unfold drop_own, keys in *. clear Er. induction m as [|[k v] r IH]; cbn [filter map fst] in *; [constructor|].
  inversion Hn as [|x l Hx Hn' Heq]; subst. cbn [snd].
  destruct (negb (is_own k v)); cbn [map fst]; [|now apply IH].
  constructor; [|now apply IH]. intros Hin. apply Hx.
  apply in_map_iff in Hin as ([k' v'] & Hk & Hin). cbn [fst] in Hk. subst k'.
  apply filter_In in Hin as [Hin _]. change k with (fst (k, v')). now apply in_map.
Qed.

(* ====================================================================== *)
(* 2. sections                                                             *)
(* ====================================================================== *)

(* class of the gate at position i; past the end there is the sentinel *)
Definition cls_at (c : circuit) (i : nat) : cls :=
  match nth_error c i with Some g => cl g | None => HARD end.

(* Python's c[s:e] for s <= e *)
Definition slice (c : circuit) (s e : nat) : circuit := firstn (e - s) (skipn s c).

(* the nearest gate before position s that is not a barrier, if any, is not classical *)
Definition left_closed (c : circuit) (s : nat) : Prop :=
  forall j, j < s -> (forall t, j < t < s -> cls_at c t = NOP) -> cls_at c j <> ZB.
(* the nearest gate from position e on that is not a barrier, if any, is not classical *)
Definition right_closed (c : circuit) (e : nat) : Prop :=
  forall j, e <= j -> (forall t, e <= t < j -> cls_at c t = NOP) -> cls_at c j <> ZB.

(* [s, e) is a maximal run of classical gates: it starts and ends with a classical
   gate, holds only classical gates and barriers, and cannot be extended on either
   side, not even across barriers *)
Definition maximal_run (c : circuit) (s e : nat) : Prop :=
  s < e /\ cls_at c s = ZB /\ cls_at c (e - 1) = ZB /\
  (forall t, s <= t < e -> cls_at c t <> HARD) /\
  left_closed c s /\ right_closed c e.

Lemma cls_eq_dec (a b : cls) : {a = b} + {a <> b}.
Proof. decide equality. Qed.

Lemma cls_at_some c i x : cls_at c i = x -> x <> HARD -> exists g, nth_error c i = Some g /\ cl g = x.
Proof.
  unfold cls_at. destruct (nth_error c i) as [g|]; intros H Hx; [now exists g|congruence].
Qed.

Lemma is_zb_cl g : is_zb g = true <-> cl g = ZB.
Proof. unfold is_zb. destruct (cl g); split; congruence. Qed.

Lemma skipn_cons_nth {A} (c : list A) : forall i g r, skipn i c = g :: r -> nth_error c i = Some g /\ skipn (S i) c = r.
Proof.
  induction c as [|x c IH]; intros i g r H.
  - destruct i; discriminate.
  - destruct i as [|i]; cbn [skipn nth_error] in *.
    + injection H as -> ->. split; reflexivity.
    + apply IH in H. exact H.
Qed.

Lemma skipn_nil_nth {A} (c : list A) : forall i, skipn i c = [] -> nth_error c i = None.
Proof.
  induction c as [|x c IH]; intros i H; [now destruct i|].
  destruct i as [|i]; cbn [skipn nth_error] in *; [discriminate|now apply IH].
Qed.

Lemma nth_error_skipn {A} (c : list A) : forall s k, nth_error (skipn s c) k = nth_error c (s + k).
Proof.
  induction c as [|x c IH]; intros s k.
  - destruct s, k; reflexivity.
  - destruct s as [|s]; [reflexivity|]. cbn [skipn Nat.add nth_error]. apply IH.
Qed.

Lemma firstn_snoc {A} (d : list A) : forall k g, nth_error d k = Some g -> firstn (S k) d = firstn k d ++ [g].
Proof.
  induction d as [|x d IH]; intros k g H; [destruct k; discriminate|].
  destruct k as [|k]; cbn [nth_error] in H.
  - injection H as ->. reflexivity.
  - cbn [firstn app]. f_equal. now apply IH.
Qed.

Lemma slice_snoc c s i g : s <= i -> nth_error c i = Some g -> slice c s (S i) = slice c s i ++ [g].
Proof.
  intros Hs Hn. unfold slice. replace (S i - s) with (S (i - s)) by lia.
  apply firstn_snoc. rewrite nth_error_skipn. now replace (s + (i - s)) with i by lia.
Qed.

Lemma slice_empty c s : slice c s s = [].
Proof. unfold slice. now rewrite Nat.sub_diag. Qed.

Lemma slice_length c s e : length (slice c s e) <= e - s.
Proof. unfold slice. rewrite firstn_length. lia. Qed.

Lemma filter_slice_nops c s e : s <= e -> forall k,
  (forall t, e <= t < e + k -> cls_at c t = NOP) ->
  filter is_zb (slice c s (e + k)) = filter is_zb (slice c s e).
Proof.
  intros Hse. induction k as [|k IH]; intros H; [now rewrite Nat.add_0_r|].
  destruct (cls_at_some c (e + k) NOP) as (g & Hg & Hc); [apply H; lia|discriminate|].
  replace (e + S k) with (S (e + k)) by lia.
  rewrite (slice_snoc c s (e + k) g) by (try lia; exact Hg).
  rewrite filter_app. cbn [filter]. unfold is_zb at 2. rewrite Hc, app_nil_r.
  apply IH. intros t Ht. apply H. lia.
Qed.

(* ---- the loop invariant ---- *)
Definition Open (c0 : circuit) (i : nat) (cur : list gate) (s endi : nat) : Prop :=
  s < endi /\ endi <= i /\ cls_at c0 s = ZB /\ cls_at c0 (endi - 1) = ZB /\
  (forall t, s <= t < endi -> cls_at c0 t <> HARD) /\
  (forall t, endi <= t < i -> cls_at c0 t = NOP) /\
  left_closed c0 s /\ cur = filter is_zb (slice c0 s endi) /\ cur <> [].

Definition Inv (c0 : circuit) (i : nat) (cur : list gate) (start : option nat) (endi : nat) : Prop :=
  (cur = [] /\ start = None /\ left_closed c0 i) \/
  (exists s, start = Some s /\ Open c0 i cur s endi).

Lemma flush_ok c0 i cur s endi :
  Open c0 i cur s endi -> cls_at c0 i = HARD ->
  maximal_run c0 s endi /\ cur = filter is_zb (slice c0 s endi).
Proof.
  intros (H1 & H2 & H3 & H4 & H5 & H6 & H7 & H8 & _) Hh. split; [|exact H8].
  repeat split; try assumption.
  intros j Hj Hn. destruct (Nat.lt_ge_cases j i) as [Hlt|Hge].
  - rewrite H6 by lia. discriminate.
  - destruct (Nat.eq_dec j i) as [->|Hne]; [congruence|].
    assert (cls_at c0 i = NOP) by (apply Hn; lia). congruence.
Qed.

Lemma closed_after_hard c0 i : cls_at c0 i = HARD -> left_closed c0 (S i).
Proof.
  intros Hh j Hj Hn. destruct (Nat.eq_dec j i) as [->|Hne]; [congruence|].
  assert (cls_at c0 i = NOP) by (apply Hn; lia). congruence.
Qed.

Lemma closed_after_nop c0 i : cls_at c0 i = NOP -> left_closed c0 i -> left_closed c0 (S i).
Proof.
  intros Hh Hl j Hj Hn. destruct (Nat.eq_dec j i) as [->|Hne]; [congruence|].
  apply Hl; [lia|]. intros t Ht. apply Hn. lia.
Qed.

Lemma cls_at_nth c0 i g : nth_error c0 i = Some g -> cls_at c0 i = cl g.
Proof. intros H. unfold cls_at. now rewrite H. Qed.

Lemma open_zb_new c0 i g :
  left_closed c0 i -> nth_error c0 i = Some g -> cl g = ZB -> Open c0 (S i) ([] ++ [g]) i (S i).
Proof.
  intros Hl Hn Hc. pose proof (cls_at_nth c0 i g Hn) as Hci. rewrite Hc in Hci.
  unfold Open. replace (S i - 1) with i by lia. repeat split; try assumption; try lia.
  - intros t Ht. replace t with i by lia. congruence.
  - rewrite (slice_snoc c0 i i g) by (try lia; exact Hn). rewrite slice_empty. cbn [app filter].
    unfold is_zb. now rewrite Hc.
  - discriminate.
Qed.

Lemma open_zb_ext c0 i cur s endi g :
  Open c0 i cur s endi -> nth_error c0 i = Some g -> cl g = ZB -> Open c0 (S i) (cur ++ [g]) s (S i).
Proof.
  intros (H1 & H2 & H3 & H4 & H5 & H6 & H7 & H8 & H9) Hn Hc.
  pose proof (cls_at_nth c0 i g Hn) as Hci. rewrite Hc in Hci.
  unfold Open. replace (S i - 1) with i by lia. repeat split; try assumption; try lia.
  - intros t Ht. destruct (Nat.lt_ge_cases t endi); [apply H5; lia|].
    destruct (Nat.eq_dec t i) as [->|]; [congruence|]. rewrite H6 by lia. discriminate.
  - rewrite (slice_snoc c0 s i g) by (try lia; exact Hn). rewrite filter_app. cbn [filter].
    unfold is_zb at 2. rewrite Hc. f_equal. rewrite H8.
    replace i with (endi + (i - endi)) by lia. symmetry. apply filter_slice_nops; [lia|].
    intros t Ht. apply H6. lia.
  - intros E. now destruct cur.
Qed.

Lemma open_nop c0 i cur s endi :
  Open c0 i cur s endi -> cls_at c0 i = NOP -> Open c0 (S i) cur s endi.
Proof.
  intros (H1 & H2 & H3 & H4 & H5 & H6 & H7 & H8 & H9) Hc.
  unfold Open. repeat split; try assumption; try lia.
  intros t Ht. destruct (Nat.eq_dec t i) as [->|]; [exact Hc|apply H6; lia].
Qed.

(* every reported section is a maximal run, with exactly its classical gates *)
Lemma scan_sound c0 : forall r i cur start endi,
  skipn i c0 = r -> Inv c0 i cur start endi ->
  forall s e gs, In (s, e, gs) (scan i cur start endi r) ->
    maximal_run c0 s e /\ gs = filter is_zb (slice c0 s e).
Proof.
  induction r as [|g r IH]; intros i cur start endi Hsk HI s e gs Hin; cbn [scan] in Hin.
  - assert (Hh : cls_at c0 i = HARD) by (unfold cls_at; now rewrite (skipn_nil_nth c0 i Hsk)).
    destruct HI as [(-> & _ & _)|(s0 & -> & Ho)]; [destruct Hin|].
    destruct cur as [|g0 cur']; [destruct Hin|]. destruct Hin as [Heq|[]].
    cbn [odef] in Heq. injection Heq as <- <- <-. now apply (flush_ok c0 i _ s0 endi).
  - destruct (skipn_cons_nth c0 i g r Hsk) as [Hn Hsk']. pose proof (cls_at_nth c0 i g Hn) as Hci.
    destruct (cl g) eqn:Ec.
    + (* classical gate *)
      eapply IH; [exact Hsk'| |exact Hin].
      destruct HI as [(-> & -> & Hl)|(s0 & -> & Ho)]; right.
      * exists i. split; [reflexivity|]. now apply open_zb_new.
      * exists s0. split; [reflexivity|]. now apply (open_zb_ext c0 i cur s0 endi).
    + (* barrier *)
      eapply IH; [exact Hsk'| |exact Hin].
      destruct HI as [(-> & -> & Hl)|(s0 & -> & Ho)].
      * left. repeat split. now apply closed_after_nop.
      * right. exists s0. split; [reflexivity|]. now apply open_nop.
    + (* any other gate *)
      destruct cur as [|g0 cur'].
      * eapply IH; [exact Hsk'| |exact Hin]. left.
        destruct HI as [(_ & -> & Hl)|(s0 & -> & Ho)].
        -- repeat split. now apply closed_after_hard.
        -- exfalso. destruct Ho as (_ & _ & _ & _ & _ & _ & _ & _ & Hne). now apply Hne.
      * destruct HI as [(Hnil & _ & _)|(s0 & -> & Ho)]; [discriminate|].
        destruct Hin as [Heq|Hin].
        -- cbn [odef] in Heq. injection Heq as <- <- <-. now apply (flush_ok c0 i _ s0 endi).
        -- eapply IH; [exact Hsk'| |exact Hin]. left. repeat split. now apply closed_after_hard.
Qed.

(* ---- coverage: every classical gate lies in a reported section ---- *)
Definition LInv (i : nat) (cur : list gate) (start : option nat) (endi : nat) : Prop :=
  (cur = [] /\ start = None) \/ (cur <> [] /\ exists s, start = Some s /\ s < endi /\ endi <= i).

Lemma snoc_not_nil {A} (l : list A) x : l ++ [x] <> [].
Proof. now destruct l. Qed.

Lemma scan_open_flushes r : forall i cur s endi, cur <> [] -> endi <= i ->
  exists e gs, In (s, e, gs) (scan i cur (Some s) endi r) /\ endi <= e.
Proof.
  induction r as [|g r IH]; intros i cur s endi Hc Hle; cbn [scan].
  - destruct cur as [|g0 cur']; [contradiction|]. exists endi, (g0 :: cur'). split; [now left|lia].
  - destruct (cl g).
    + destruct (IH (S i) (cur ++ [g]) s (S i) (snoc_not_nil cur g) (le_n _)) as (e & gs & Hin & He).
      exists e, gs. split; [exact Hin|lia].
    + apply IH; [exact Hc|lia].
    + destruct cur as [|g0 cur']; [contradiction|]. exists endi, (g0 :: cur'). split; [now left|lia].
Qed.

Lemma LInv_zb i cur start endi g :
  LInv i cur start endi ->
  exists s, (match start with None => Some i | Some s => Some s end) = Some s /\ s <= i /\
            LInv (S i) (cur ++ [g]) (Some s) (S i).
Proof.
  intros [(-> & ->)|(Hc & s & -> & Hs & He)].
  - exists i. repeat split; try lia. right. split; [discriminate|]. exists i. repeat split; lia.
  - exists s. repeat split; try lia. right. split; [apply snoc_not_nil|]. exists s. repeat split; lia.
Qed.

Lemma LInv_nop i cur start endi : LInv i cur start endi -> LInv (S i) cur start endi.
Proof.
  intros [H|(Hc & s & -> & Hs & He)]; [now left|]. right. split; [exact Hc|]. exists s. repeat split; lia.
Qed.

Lemma scan_covers r : forall i cur start endi k g,
  LInv i cur start endi -> nth_error r k = Some g -> cl g = ZB ->
  exists s e gs, In (s, e, gs) (scan i cur start endi r) /\ s <= i + k < e.
Proof.
  induction r as [|g0 r IH]; intros i cur start endi k g HL Hn Hc; [destruct k; discriminate|].
  cbn [scan]. destruct k as [|k]; cbn [nth_error] in Hn.
  - injection Hn as ->. rewrite Hc.
    destruct (LInv_zb i cur start endi g HL) as (s & -> & Hs & _).
    destruct (scan_open_flushes r (S i) (cur ++ [g]) s (S i) (snoc_not_nil cur g) (le_n _)) as (e & gs & Hin & He).
    exists s, e, gs. split; [exact Hin|lia].
  - replace (i + S k) with (S i + k) by lia. destruct (cl g0) eqn:Ec0.
    + destruct (LInv_zb i cur start endi g0 HL) as (s & -> & Hs & HL').
      now apply (IH (S i) _ (Some s) (S i) k g).
    + apply (IH (S i) cur start endi k g); [now apply LInv_nop|exact Hn|exact Hc].
    + destruct cur as [|g1 cur'].
      * apply (IH (S i) [] start endi k g); [|exact Hn|exact Hc].
        destruct HL as [(_ & ->)|(Hne & _)]; [now left|contradiction].
      * destruct (IH (S i) [] None endi k g) as (s & e & gs & Hin & Hr); [now left|exact Hn|exact Hc|].
        exists s, e, gs. split; [now right|exact Hr].
Qed.

(* ---- order: sections are listed left to right and do not overlap ---- *)
Fixpoint sorted_from (B : nat) (l : list sec) : Prop :=
  match l with
  | [] => True
  | (s, e, _) :: r => B <= s /\ s < e /\ sorted_from e r
  end.

Lemma sorted_from_mono B B' l : B' <= B -> sorted_from B l -> sorted_from B' l.
Proof. destruct l as [|[[s e] gs] r]; cbn [sorted_from]; [trivial|]. intros H (H1 & H2 & H3). repeat split; try assumption; lia. Qed.

Lemma scan_sorted r : forall i cur start endi, LInv i cur start endi ->
  sorted_from (match start with Some s => s | None => i end) (scan i cur start endi r).
Proof.
  induction r as [|g r IH]; intros i cur start endi HL; cbn [scan].
  - destruct HL as [(-> & ->)|(Hc & s & -> & Hs & He)]; [exact I|].
    destruct cur as [|g0 cur']; [contradiction|]. cbn [sorted_from odef]. repeat split; lia.
  - destruct (cl g).
    + destruct (LInv_zb i cur start endi g HL) as (s & Hst & Hs & HL').
      rewrite Hst. specialize (IH (S i) _ (Some s) (S i) HL').
      destruct start as [s0|]; injection Hst as ->; exact IH.
    + specialize (IH (S i) cur start endi (LInv_nop _ _ _ _ HL)).
      destruct start; [exact IH|]. eapply sorted_from_mono; [|exact IH]. lia.
    + destruct HL as [(-> & ->)|(Hc & s & -> & Hs & He)].
      * specialize (IH (S i) [] None endi (or_introl (conj eq_refl eq_refl))).
        eapply sorted_from_mono; [|exact IH]. lia.
      * destruct cur as [|g0 cur']; [contradiction|]. cbn [sorted_from odef].
        repeat split; try lia.
        specialize (IH (S i) [] None endi (or_introl (conj eq_refl eq_refl))).
        eapply sorted_from_mono; [|exact IH]. lia.
Qed.

(* ---- two maximal runs that share a position are the same run ---- *)
Lemma last_non_nop c a : forall b, a < b -> cls_at c a <> NOP ->
  exists j, a <= j < b /\ cls_at c j <> NOP /\ forall t, j < t < b -> cls_at c t = NOP.
Proof.
  induction b as [|b IH]; intros Hab Ha; [lia|].
  destruct (cls_eq_dec (cls_at c b) NOP) as [Hb|Hb].
  - destruct (Nat.eq_dec a b) as [->|Hne]; [contradiction|].
    destruct (IH ltac:(lia) Ha) as (j & Hj & Hjn & Hr). exists j. repeat split; try lia; try assumption.
    intros t Ht. destruct (Nat.eq_dec t b) as [->|]; [exact Hb|apply Hr; lia].
  - exists b. repeat split; try lia; try assumption.
Qed.

Lemma first_non_nop c b : forall d a, b = a + d -> cls_at c b <> NOP ->
  exists j, a <= j <= b /\ cls_at c j <> NOP /\ forall t, a <= t < j -> cls_at c t = NOP.
Proof.
  induction d as [|d IH]; intros a Hab Hb.
  - exists b. repeat split; try lia; try assumption.
  - destruct (cls_eq_dec (cls_at c a) NOP) as [Ha|Ha].
    + destruct (IH (S a) ltac:(lia) Hb) as (j & Hj & Hjn & Hr). exists j. repeat split; try lia; try assumption.
      intros t Ht. destruct (Nat.eq_dec t a) as [->|]; [exact Ha|apply Hr; lia].
    + exists a. repeat split; try lia; try assumption.
Qed.

Lemma run_starts_ordered c s1 e1 s2 e2 x :
  maximal_run c s1 e1 -> maximal_run c s2 e2 -> s1 <= x < e1 -> s2 <= x < e2 -> ~ s1 < s2.
Proof.
  intros (A1 & A2 & A3 & A4 & A5 & A6) (B1 & B2 & B3 & B4 & B5 & B6) H1 H2 Hlt.
  destruct (last_non_nop c s1 s2 Hlt) as (j & Hj & Hjn & Hr); [congruence|].
  assert (Hz : cls_at c j = ZB).
  { assert (cls_at c j <> HARD) by (apply A4; lia). destruct (cls_at c j); congruence. }
  exact (B5 j ltac:(lia) Hr Hz).
Qed.

Lemma run_ends_ordered c s1 e1 s2 e2 x :
  maximal_run c s1 e1 -> maximal_run c s2 e2 -> s1 <= x < e1 -> s2 <= x < e2 -> ~ e1 < e2.
Proof.
  intros (A1 & A2 & A3 & A4 & A5 & A6) (B1 & B2 & B3 & B4 & B5 & B6) H1 H2 Hlt.
  destruct (first_non_nop c (e2 - 1) (e2 - 1 - e1) e1 ltac:(lia)) as (j & Hj & Hjn & Hr); [congruence|].
  assert (Hz : cls_at c j = ZB).
  { assert (cls_at c j <> HARD) by (apply B4; lia). destruct (cls_at c j); congruence. }
  exact (A6 j ltac:(lia) Hr Hz).
Qed.

Lemma maximal_run_unique c s1 e1 s2 e2 x :
  maximal_run c s1 e1 -> maximal_run c s2 e2 -> s1 <= x < e1 -> s2 <= x < e2 -> s1 = s2 /\ e1 = e2.
Proof.
  intros M1 M2 H1 H2.
  pose proof (run_starts_ordered c s1 e1 s2 e2 x M1 M2 H1 H2).
  pose proof (run_starts_ordered c s2 e2 s1 e1 x M2 M1 H2 H1).
  pose proof (run_ends_ordered c s1 e1 s2 e2 x M1 M2 H1 H2).
  pose proof (run_ends_ordered c s2 e2 s1 e1 x M2 M1 H2 H1).
  lia.
Qed.

Lemma Inv_init c : Inv c 0 [] None 0.
Proof. left. repeat split. intros j Hj. lia. Qed.

(* sections_exact: the sections reported for a circuit are EXACTLY its maximal
   runs of classical gates; the index is (position of the first gate, position
   after the last gate) and the gate list is the run without its barriers. *)
Theorem sections_exact_thm : forall c s e gs,
  In (s, e, gs) (sections c) <-> maximal_run c s e /\ gs = filter is_zb (slice c s e).
Proof.
  intros c s e gs. split.
  - apply (scan_sound c c 0 [] None 0 eq_refl (Inv_init c)).
  - intros [M ->]. pose proof M as (M1 & M2 & _).
    destruct (cls_at_some c s ZB M2) as (g & Hg & Hc); [discriminate|].
    destruct (scan_covers c 0 [] None 0 s g (or_introl (conj eq_refl eq_refl)) Hg Hc) as (s' & e' & gs' & Hin & Hr).
    fold (sections c) in Hin. pose proof Hin as Hin'.
    apply (scan_sound c c 0 [] None 0 eq_refl (Inv_init c)) in Hin' as [M' ->].
    destruct (maximal_run_unique c s e s' e' s M M' ltac:(lia) ltac:(lia)) as [-> ->]. exact Hin.
Qed.

Theorem sections_sorted : forall c, sorted_from 0 (sections c).
Proof. intros c. apply (scan_sorted c 0 [] None 0). now left. Qed.

(* a maximal run lies inside the circuit, and holds at most e - s gates *)
Lemma maximal_run_bound c s e : maximal_run c s e -> s < e /\ e <= length c.
Proof.
  intros (H1 & _ & H3 & _). split; [exact H1|].
  destruct (cls_at_some c (e - 1) ZB H3) as (g & Hg & _); [discriminate|].
  assert (e - 1 < length c) by (apply nth_error_Some; congruence). lia.
Qed.

Lemma filter_len_le {A} (p : A -> bool) l : length (filter p l) <= length l.
Proof. induction l as [|x l IH]; cbn [filter length]; [lia|]. destruct (p x); cbn [length]; lia. Qed.

Lemma section_bounds c s e gs : In (s, e, gs) (sections c) -> s < e /\ e <= length c /\ length gs <= e - s.
Proof.
  intros H. apply sections_exact_thm in H as [M ->]. destruct (maximal_run_bound c s e M) as [H1 H2].
  repeat split; try assumption.
  etransitivity; [apply filter_len_le|apply slice_length].
Qed.

(* ---- decompile returns on every well-formed circuit ---- *)
(* arity of the classical gates, as gates.apply enforces it *)
Definition zb_wf (g : gate) : Prop :=
  match gkind g with
  | K1 BI | K1 BX => length (gqs g) = 1
  | KCX => length (gqs g) = 2
  | KCCX => length (gqs g) = 3
  | KMCX n => length (gqs g) = S n
  | _ => True
  end.

Lemma exps_step_ok m g : cl g = ZB -> zb_wf g -> exists m', exps_step false m g = Ok m'.
Proof.
  unfold cl, zb_wf, exps_step. destruct g as [k qs p]. cbn [gkind gqs]. intros Hc Hw.
  destruct k as [b| | | | |n|b n| | ]; try discriminate.
  - destruct b; try discriminate; destruct qs as [|a [|? ?]]; try discriminate; eexists; reflexivity.
  - destruct qs as [|a [|b [|? ?]]]; try discriminate; eexists; reflexivity.
  - destruct qs as [|a [|b [|c [|? ?]]]]; try discriminate; eexists; reflexivity.
  - rewrite Hw, Nat.eqb_refl. eexists; reflexivity.
Qed.

Lemma exps_run_ok gs : Forall (fun g => cl g = ZB /\ zb_wf g) gs -> forall m, exists m', exps_run false m gs = Ok m'.
Proof.
  induction 1 as [|g gs [Hc Hw] _ IH]; intros m; cbn [exps_run]; [now exists m|].
  destruct (exps_step_ok m g Hc Hw) as (m1 & ->). apply IH.
Qed.

Lemma in_firstn {A} (l : list A) : forall n x, In x (firstn n l) -> In x l.
Proof.
  induction l as [|y l IH]; intros n x H; [now rewrite firstn_nil in H|].
  destruct n as [|n]; [destruct H|]. cbn [firstn] in H. destruct H as [->|H]; [now left|right; now apply (IH n)].
Qed.
Lemma in_skipn {A} (l : list A) : forall n x, In x (skipn n l) -> In x l.
Proof.
  induction l as [|y l IH]; intros n x H; [now rewrite skipn_nil in H|].
  destruct n as [|n]; [exact H|]. cbn [skipn] in H. right. now apply (IH n).
Qed.
Lemma in_slice c s e g : In g (slice c s e) -> In g c.
Proof. unfold slice. intros H. apply in_firstn in H. now apply in_skipn in H. Qed.

Theorem decompile_total_thm : forall c, Forall zb_wf c -> exists r, decompile c = Ok r.
Proof.
  intros c Hwf. unfold decompile.
  assert (G : forall l, (forall s e gs, In (s, e, gs) l -> In (s, e, gs) (sections c)) -> exists r, with_exps false l = Ok r).
  { induction l as [|[[s e] gs] l IH]; intros Hl; cbn [with_exps]; [now eexists|].
    assert (Hin : In (s, e, gs) (sections c)) by (apply Hl; now left).
    apply sections_exact_thm in Hin as [_ ->].
    unfold exps_of_section_gen.
    destruct (exps_run_ok (filter is_zb (slice c s e))) with (m := @nil (nat * bexp)) as (m' & ->).
    - apply Forall_forall. intros g Hg. apply filter_In in Hg as [Hg Hz]. split; [now apply is_zb_cl|].
      rewrite Forall_forall in Hwf. apply Hwf. now apply (in_slice c s e).
    - destruct IH as (r & ->); [intros s' e' gs' H; apply Hl; now right|]. now eexists. }
  apply G. auto.
Qed.

(* ====================================================================== *)
(* 3. the code before the repair of the end index                          *)
(* ====================================================================== *)
(* [old_guard]: whenever a run is closed (by a non-classical gate or by the end
   of the circuit), at most ONE barrier separates it from the run's last gate.
   Exactly under this guard the old rule "end = i, minus one if gates[i-1] is a
   Nop" computes the same index as the repaired code. *)
Fixpoint old_guard_from (open : bool) (trail : nat) (r : circuit) : bool :=
  match r with
  | [] => negb open || (trail <=? 1)
  | g :: r' =>
      match cl g with
      | ZB => old_guard_from true 0 r'
      | NOP => old_guard_from open (S trail) r'
      | HARD => (negb open || (trail <=? 1)) && old_guard_from false 0 r'
      end
  end.
Definition old_guard (c : circuit) : bool := old_guard_from false 0 c.

Definition OldRel (i : nat) (prev : bool) (cur : list gate) (endi : nat) (open : bool) (trail : nat) : Prop :=
  (open = false /\ cur = []) \/ (open = true /\ cur <> [] /\ i = endi + trail /\ prev = (0 <? trail)).

Lemma old_end_eq i prev endi trail : i = endi + trail -> prev = (0 <? trail) ->
  ((if prev then i - 1 else i) = endi <-> (trail <=? 1) = true).
Proof.
  intros -> ->. rewrite Nat.leb_le. destruct trail as [|[|t]]; cbn [Nat.ltb Nat.leb]; lia.
Qed.

Lemma scan_old_iff r : forall i prev cur start endi open trail,
  OldRel i prev cur endi open trail ->
  (scan_old i prev cur start r = scan i cur start endi r <-> old_guard_from open trail r = true).
Proof.
  induction r as [|g r IH]; intros i prev cur start endi open trail HR; cbn [scan_old scan old_guard_from].
  - destruct HR as [(-> & ->)|(-> & Hc & Hi & Hp)]; [cbn; tauto|].
    destruct cur as [|g0 cur']; [contradiction|]. cbn [negb orb].
    rewrite <- (old_end_eq i prev endi trail Hi Hp). split; [intros H; now injection H|intros ->; reflexivity].
  - destruct (cl g).
    + apply IH. right. repeat split; [apply snoc_not_nil|lia].
    + apply IH. destruct HR as [(-> & ->)|(-> & Hc & Hi & Hp)]; [now left|].
      right. repeat split; [exact Hc|lia].
    + destruct HR as [(-> & ->)|(-> & Hc & Hi & Hp)].
      * cbn [negb orb andb]. apply IH. now left.
      * destruct cur as [|g0 cur']; [contradiction|]. cbn [negb orb].
        rewrite andb_true_iff, <- (old_end_eq i prev endi trail Hi Hp).
        rewrite <- (IH (S i) false [] None endi false 0) by now left.
        split; [intros H; injection H as H1 H2; now split|intros [-> ->]; reflexivity].
Qed.

Theorem sections_old_iff_guard : forall c, sections_old c = sections c <-> old_guard c = true.
Proof. intros c. apply scan_old_iff. now left. Qed.

(* under the guard the old code reported exactly the maximal runs as well *)
Corollary sections_old_exact_partial : forall c, old_guard c = true -> forall s e gs,
  In (s, e, gs) (sections_old c) <-> maximal_run c s e /\ gs = filter is_zb (slice c s e).
Proof. intros c Hg s e gs. rewrite (proj2 (sections_old_iff_guard c) Hg). apply sections_exact_thm. Qed.

(* ====================================================================== *)
(* 4. a verified check of one section against ALL basis states             *)
(* ====================================================================== *)
From QV Require Import Compiled.
Local Open Scope N_scope.

(* [ex] is a list of (qubit, expression) as returned by the implementation;
   a qubit without an entry keeps its value (expression = its own symbol) *)
Definition sec_expected (nq : nat) (ex : emap) : list (nat * N) :=
  map (fun q => (q, tt_eval (tt_mask nq) (tenv (input_tables nq)) (egetd ex q))) (seq 0 nq).
Definition sec_check (nq : nat) (gs : circuit) (ex : emap) : option N :=
  check_circuit (tt_mask nq) (input_tables nq) gs (sec_expected nq ex).

Lemma proj_input_basis n x q : x < pow2n n -> proj x (input_tables n) q = basis n x q.
Proof.
  intros Hx. unfold proj, basis. destruct (Nat.ltb_spec q n) as [Hq|Hq].
  - now apply input_tables_spec.
  - rewrite nth_overflow by (rewrite input_tables_length; exact Hq). apply N.bits_0.
Qed.

Lemma basis_asg n x i : x < pow2n n -> basis n x i = asg x i.
Proof.
  intros Hx. unfold basis. destruct (Nat.ltb_spec i n) as [Hi|Hi]; [reflexivity|].
  symmetry. now apply (asg_high n).
Qed.

Lemma sec_expected_bit nq ex x q : x < pow2n nq ->
  N.testbit (tt_eval (tt_mask nq) (tenv (input_tables nq)) (egetd ex q)) x = beval (basis nq x) (egetd ex q).
Proof.
  intros Hx. rewrite tt_eval_spec by now apply mask_lt. apply beval_ext. intros i.
  rewrite tenv_input by exact Hx. symmetry. now apply basis_asg.
Qed.

Definition sec_holds (nq : nat) (gs : circuit) (ex : emap) : Prop :=
  forall x, x < pow2n nq ->
    exists f, fsim (basis nq x) gs = Some f /\
      forall q, (q < nq)%nat -> f q = beval (basis nq x) (egetd ex q).

Theorem sec_check_correct nq gs ex :
  sec_check nq gs ex = Some 0 <-> all_classical gs = true /\ sec_holds nq gs ex.
Proof.
  unfold sec_check. rewrite check_circuit_spec, sim_some. apply and_iff_compat_l. unfold sec_holds. split.
  - intros H x Hx. destruct (H x (proj2 (mask_lt nq x) Hx)) as (f & Hf & He).
    pose proof (fsim_ext gs _ _ (fun q => proj_input_basis nq x q Hx)) as Hb. rewrite Hf in Hb.
    destruct (fsim (basis nq x) gs) as [g|]; [|contradiction]. exists g. split; [reflexivity|].
    intros q Hq. rewrite <- Hb, <- sec_expected_bit by exact Hx. apply He.
    unfold sec_expected. apply in_map_iff. exists q. split; [reflexivity|apply in_seq; lia].
  - intros H x Hm. apply mask_lt in Hm. destruct (H x Hm) as (g & Hg & He).
    pose proof (fsim_ext gs _ _ (fun q => proj_input_basis nq x q Hm)) as Hb. rewrite Hg in Hb.
    destruct (fsim (proj x (input_tables nq)) gs) as [f|]; [|contradiction]. exists f. split; [reflexivity|].
    intros q e Hin. unfold sec_expected in Hin. apply in_map_iff in Hin as (q' & Heq & Hin).
    injection Heq as -> <-. apply in_seq in Hin. rewrite Hb, He by lia. symmetry. now apply sec_expected_bit.
Qed.

(* ====================================================================== *)
(* 5. witnesses against the code before the repairs                        *)
(* ====================================================================== *)
Local Close Scope N_scope.
Definition wit_two_barriers : circuit :=
  [mkg (K1 BX) [0] None; mkg KCX [0; 1] None; mkg KBarrier [] None; mkg KBarrier [] None; mkg (K1 BH) [2] None].

(* X; CX; barrier; barrier; H: the old rule reports (0,3), and position 2 is a barrier *)
Lemma sections_old_refuted_thm :
  exists c s e gs, In (s, e, gs) (sections_old c) /\ ~ maximal_run c s e.
Proof.
  exists wit_two_barriers, 0, 3, [mkg (K1 BX) [0] None; mkg KCX [0; 1] None]. split.
  - vm_compute. now left.
  - intros (_ & _ & H & _). vm_compute in H. discriminate.
Qed.

(* a section holding gates.I made the old __exps_of_section raise *)
Lemma identity_old_refuted_thm :
  exists c, decompile_old c = Err 1%N /\ exists r, decompile c = Ok r.
Proof.
  exists [mkg (K1 BI) [0] None; mkg (K1 BX) [1] None]. split; [reflexivity|]. eexists. vm_compute. reflexivity.
Qed.
