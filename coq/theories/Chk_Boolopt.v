(* Chk_Boolopt.v — functions the C04 harness evaluates on observations of the
   implementation: which symbols changed their function between two definition
   lists (on ALL assignments of the n inputs, packed truth tables, proved sound
   and complete), the model's output for a step compared with the
   implementation's output, the contracts of the observed sympy calls. *)
From Coq Require Import List Bool NArith Arith Lia.
From QV Require Import Bexp BexpTT Compiled M_Boolopt P_Boolopt.
Import ListNotations.
Local Open Scope N_scope.

(* ---- symbols whose function of the inputs differs between two lists ---- *)
(* on tables already computed (the harness shares the tables of a list between
   all the comparisons it takes part in) *)
Definition tbl_differs (m : N) (t1 t2 : list N) (r : nat) : bool :=
  negb (tt_diff m (tenv t1 r) (tenv t2 r) =? 0).
Definition tbl_diff (m : N) (t1 t2 : list N) (syms : list nat) : list nat :=
  filter (tbl_differs m t1 t2) syms.

Definition sym_differs (n : nat) (d1 d2 : defs) (r : nat) : bool :=
  tbl_differs (tt_mask n) (expr_tables n d1) (expr_tables n d2) r.

Definition sym_diff (n : nat) (syms : list nat) (d1 d2 : defs) : list nat :=
  tbl_diff (tt_mask n) (expr_tables n d1) (expr_tables n d2) syms.

Lemma filter_nil_iff {A} (p : A -> bool) l : filter p l = [] <-> forall x, In x l -> p x = false.
Proof.
  induction l as [|a l IH]; cbn [filter].
  - split; [intros _ x []|reflexivity].
  - destruct (p a) eqn:Hp.
    + split; [discriminate|]. intros H. rewrite (H a (or_introl eq_refl)) in Hp. discriminate Hp.
    + rewrite IH. split.
      * intros H x [<-|Hx]; [exact Hp|now apply H].
      * intros H x Hx. apply H. now right.
Qed.

Lemma sym_differs_false n d1 d2 r :
  sym_differs n d1 d2 r = false <->
  forall x, x < pow2n n -> run_defs (asg x) d1 r = run_defs (asg x) d2 r.
Proof.
  unfold sym_differs, tbl_differs. rewrite negb_false_iff, N.eqb_eq, tt_diff_spec. split.
  - intros H x Hx. rewrite <- !(expr_tables_spec n) by exact Hx. apply H. now apply mask_lt.
  - intros H x Hm. apply mask_lt in Hm. rewrite !expr_tables_spec by exact Hm. now apply H.
Qed.

(* the verdict "no symbol differs" means: same value under every assignment of
   the n inputs (symbols that are neither inputs nor defined read as false) *)
Theorem sym_diff_correct n syms d1 d2 :
  sym_diff n syms d1 d2 = [] <->
  forall x, x < pow2n n -> forall r, In r syms -> run_defs (asg x) d1 r = run_defs (asg x) d2 r.
Proof.
  unfold sym_diff, tbl_diff. fold (sym_differs n d1 d2). rewrite filter_nil_iff. split.
  - intros H x Hx r Hr. exact (proj1 (sym_differs_false n d1 d2 r) (H r Hr) x Hx).
  - intros H r Hr. apply sym_differs_false. intros x Hx. now apply H.
Qed.

(* a differing assignment for a symbol that differs *)
Definition sym_witness (n : nat) (d1 d2 : defs) (r : nat) : N :=
  N.log2 (tt_diff (tt_mask n) (tenv (expr_tables n d1) r) (tenv (expr_tables n d2) r)).

Theorem sym_witness_correct n d1 d2 r : sym_differs n d1 d2 r = true ->
  let x := sym_witness n d1 d2 r in
  x < pow2n n /\ run_defs (asg x) d1 r <> run_defs (asg x) d2 r.
Proof.
  unfold sym_differs, tbl_differs, sym_witness. rewrite negb_true_iff, N.eqb_neq. intros H.
  destruct (tt_diff_witness _ _ _ H) as [Hm Hne]. apply mask_lt in Hm. split; [exact Hm|].
  now rewrite !expr_tables_spec in Hne by exact Hm.
Qed.

(* ---- one observed step ---- *)
Definition mem_ret (rets : list nat) (i : nat) : bool := memb i rets.

(* the oracles the model is run with: simplify_logic = identity and cse = no
   extraction both satisfy the contracts, so the model's output must define the
   same functions as the implementation's *)
Definition simp_id (e : bexp) : bexp := e.
Definition cse_none (ex : list nat) (es : list bexp) : defs * list bexp := ([], es).

(* [g]: the implementation's apply_cse has the guard of the proposed patch
   (decided by the harness with a probe list); the model follows it *)
Definition steps_of_code (g : bool) (c : N) : option (list step) :=
  match c with
  | 0 => Some [S_merge] | 1 => Some [if g then S_cse_guarded else S_cse]
  | 2 => Some [S_remove_ITE] | 3 => Some [S_remove_Implies]
  | 4 => Some [S_or2xor] | 5 => Some [S_or2and] | 6 => Some [S_obvious]
  | 7 => Some (if g then default_profile_guarded else default_profile) | 8 => Some fast_profile
  | _ => None
  end.

Definition model_out (rets : list nat) (dis : bool) (steps : list step) (d_in : defs) : defs :=
  apply_profile simp_id cse_none (mem_ret rets) dis steps d_in.

(* the symbols whose function the step must keep: every defined symbol for the
   transformers and fastOptimizer, the _ret symbols for the rest *)
Definition kept_syms (rets : list nat) (steps : list step) (d_in : defs) : list nat :=
  if forallb is_transformer steps then names d_in ++ rets else rets.

Record obs := mk_obs {
  o_code : N;                 (* which step / profile *)
  o_fired : option bool;      (* transformers: did the implementation change the list *)
  o_nrepl : nat;              (* apply_cse: number of replacements in front of the output *)
  o_out : defs                (* the implementation's output *)
}.

(* failure kinds: 1 = a kept symbol changed its function (implementation);
   2 = model output and implementation output define different functions, or
   (apply_cse) the output is not replacements ++ zip(names, reduced);
   3 = the model rewrote and the implementation did not, or conversely;
   4 = malformed observation *)
Definition nil_b {A} (l : list A) : bool := match l with [] => true | _ => false end.

Definition chk_obs (g : bool) (n : nat) (rets : list nat) (dis : bool) (d_in : defs) (t_in : list N) (o : obs) : list N :=
  match steps_of_code g (o_code o) with
  | None => [4]
  | Some steps =>
      let m := tt_mask n in
      let syms := kept_syms rets steps d_in in
      let m_out := model_out rets dis steps d_in in
      let t_out := expr_tables n (o_out o) in
      (if nil_b (tbl_diff m t_in t_out syms) then [] else [1]) ++
      (if N.eqb (o_code o) 1
       then (let repl := firstn (o_nrepl o) (o_out o) in
             let red := exprs (skipn (o_nrepl o) (o_out o)) in
             if defs_eqb (apply_cse (fun _ => (repl, red)) d_in) (o_out o) then [] else [2])
       else (if nil_b (tbl_diff m (expr_tables n m_out) t_out syms) then [] else [2])) ++
      (match o_fired o with
       | None => []
       | Some f => if Bool.eqb f (negb (defs_eqb m_out d_in)) then [] else [3]
       end)
  end.

(* kind 1 is exactly the verdict of sym_diff *)
Lemma chk_obs_kind1 g n rets dis d_in o steps : steps_of_code g (o_code o) = Some steps ->
  (In 1 (chk_obs g n rets dis d_in (expr_tables n d_in) o) <->
   sym_diff n (kept_syms rets steps d_in) d_in (o_out o) <> []).
Proof.
  intros Hs. unfold chk_obs. rewrite Hs. cbv zeta. unfold sym_diff.
  set (dl := tbl_diff _ _ _ _). rewrite !in_app_iff. split.
  - intros [H|[H|H]].
    + destruct dl; [destruct H|discriminate].
    + destruct (N.eqb (o_code o) 1).
      * destruct (defs_eqb _ _); [destruct H|destruct H as [H|[]]; discriminate H].
      * destruct (nil_b _); [destruct H|destruct H as [H|[]]; discriminate H].
    + destruct (o_fired o) as [f|]; [|destruct H]. destruct (Bool.eqb _ _); [destruct H|destruct H as [H|[]]; discriminate H].
  - intros H. left. destruct dl; [now destruct H|now left].
Qed.

Record case := mk_case {
  c_id : N; c_n : nat; c_rets : list nat; c_dis : bool; c_in : defs; c_obs : list obs }.

(* failing (case, step, kind) encoded as id * 1000 + code * 10 + kind *)
Definition chk_case (g : bool) (c : case) : list N :=
  let t_in := expr_tables (c_n c) (c_in c) in
  flat_map (fun o => map (fun k => c_id c * 1000 + o_code o * 10 + k)
                         (chk_obs g (c_n c) (c_rets c) (c_dis c) (c_in c) t_in o)) (c_obs c).

Definition chk_cases (g : bool) (cs : list case) : list N := flat_map (chk_case g) cs.

(* for the failures of kind 1: [code; symbol; assignment] triples, flattened *)
Definition witnesses_obs (g : bool) (n : nat) (rets : list nat) (d_in : defs) (cid : N) (o : obs) : list N :=
  match steps_of_code g (o_code o) with
  | None => []
  | Some steps =>
      flat_map (fun r => [cid * 1000 + o_code o * 10 + 1; N.of_nat r; sym_witness n d_in (o_out o) r])
               (sym_diff n (kept_syms rets steps d_in) d_in (o_out o))
  end.

Definition witnesses (g : bool) (cs : list case) : list N :=
  flat_map (fun c => flat_map (witnesses_obs g (c_n c) (c_rets c) (c_in c) (c_id c)) (c_obs c)) cs.

Fixpoint forallb2 {A B} (p : A -> B -> bool) (l : list A) (m : list B) : bool :=
  match l, m with
  | [], [] => true
  | x :: l', y :: m' => p x y && forallb2 p l' m'
  | _, _ => false
  end.

(* the step lists of the shipped profiles, as observed by introspection *)
Definition profiles_match (g : bool) (obs_default obs_fast : list N) : bool :=
  let dec := fun c => match steps_of_code g c with Some [s] => Some s | _ => None end in
  let eqs := fun (a : list N) (b : list step) =>
    forallb2 (fun x y => match x with Some s => step_eqb s y | None => false end) (map dec a) b in
  eqs obs_default (if g then default_profile_guarded else default_profile) && eqs obs_fast fast_profile.

(* ---- contracts of the observed sympy calls ---- *)
(* simplify_logic(arg) = res over the n symbols of arg *)
Definition chk_simp (n : nat) (arg res : bexp) : bool :=
  syms_below n arg && syms_below n res && bexp_equiv_tt n arg res &&
  forallb (fun i => memb i (bsyms arg)) (bsyms res).

Definition chk_simps (l : list (N * (nat * bexp * bexp))) : list N :=
  flat_map (fun c => let '(id, (n, a, r)) := c in if chk_simp n a r then [] else [id]) l.

(* cse(es) = (repl, red): symbols of es are 0..n-1 (all free for cse) *)
Fixpoint free_okb (allowed : list nat) (ds : defs) : bool :=
  match ds with
  | [] => true
  | (s, e) :: r => forallb (fun i => memb i allowed) (bsyms e) && free_okb (s :: allowed) r
  end.

Definition chk_cse (n : nat) (ret_syms : list nat) (es : list bexp) (repl : defs) (red : list bexp) : bool :=
  let m := tt_mask n in
  let t0 := input_tables n in
  let t1 := run_defs_tt m t0 repl in
  let es_syms := flat_map bsyms es in
  forallb (syms_below n) es &&
  (* cse_len + cse_sem *)
  forallb2 (fun e r => tt_diff m (tt_eval m (tenv t0) e) (tt_eval m (tenv t1) r) =? 0) es red &&
  (* replacement symbols are new and are not _ret symbols *)
  forallb (fun s => negb (memb s es_syms) && negb (memb s ret_syms)) (names repl) &&
  (* cse_repl_syms, cse_red_syms *)
  free_okb es_syms repl &&
  forallb (fun r => forallb (fun i => memb i es_syms || memb i (names repl)) (bsyms r)) red.

Definition chk_cses (l : list (N * (nat * list nat * list bexp * defs * list bexp))) : list N :=
  flat_map (fun c => let '(id, (n, rs, es, repl, red)) := c in if chk_cse n rs es repl red then [] else [id]) l.
