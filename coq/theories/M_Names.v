(* M_Names.v — executable model of the name the synthesiser gives a new ancilla:
     qlasskit/qcircuit/qcircuitenhanced.py  QCircuitEnhanced.add_ancilla (name is None)
       k = len(self.ancilla_lst); name = f"anc_{k}"
       while name in self.qubit_map and name not in self.ancilla_names: k += 1; name = f"anc_{k}"
   A name "anc_k" is represented by k.  [taken] lists the k for which "anc_k" is at that
   moment a key of qubit_map that was NOT given by add_ancilla (the name of a program symbol:
   a parameter, or a local mapped by map_qubit).  The loop is the search for the first index
   >= k0 that is not taken; it is run on fuel |taken| + 1, which always suffices (P_Names).
   No proofs here. *)
From Coq Require Import List Arith Bool.
Import ListNotations.

Definition memb (k : nat) (l : list nat) : bool := existsb (Nat.eqb k) l.

Fixpoint fresh_go (fuel k : nat) (taken : list nat) : option nat :=
  if memb k taken then
    match fuel with
    | O => None
    | S f => fresh_go f (S k) taken
    end
  else Some k.

(* the index of the name add_ancilla chooses when the circuit has k0 ancillas *)
Definition fresh_anc (k0 : nat) (taken : list nat) : option nat :=
  fresh_go (length taken) k0 taken.

(* what the harness evaluates: observations (k0, taken, chosen index) *)
Definition chk_names (obs : list (nat * (nat * list nat * nat))) : list nat :=
  map fst (filter (fun o => match o with (_, (k0, taken, got)) =>
     negb (match fresh_anc k0 taken with Some k => Nat.eqb k got | None => false end) end) obs).
