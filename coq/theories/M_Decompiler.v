(* M_Decompiler.v — executable model of qlasskit/decompiler/decompiler.py
   (Decompiler.decompile and Decompiler.__exps_of_section).  No proofs here.

   The main definitions follow the code WITH the two proposed repairs
   (/verif/proposed_fixes/C11_end_index.diff, C11_identity_gate.diff):
     - the end of a section is the index after its last classical gate;
     - gates.I inside a section is handled (it changes nothing).
   The behaviour of the code before the repairs is kept as explicitly named
   "old" variants ([scan_old], [sections_old], [exps_of_section_old]).

   Conventions.  A circuit is the gate list of `qc.copy(True)`: qubit i is named
   "q<i>", so the dictionary of `__exps_of_section`, keyed by Symbol("q<i>"), is
   keyed here by the qubit index i, and [BSym i] is the value of qubit i at the
   entry of the section.  Applied gates are well formed in the sense of
   `gates.apply` (len(qubits) = gate.n_qubits); on a hand-made tuple of another
   arity the model answers [Err 2] instead of following Python's indexing. *)
From Coq Require Import List Bool NArith Arith.
From QV Require Import Bexp BexpTT Circ.
Import ListNotations.

(* ---- how `decompile` classifies a gate ---- *)
Inductive cls := ZB | NOP | HARD.

(* ZB_GATES = [I, X, MCX, CCX, CX] tested with isinstance: the class decides.
   MCtrl(X, n) and Swap are not in the list; Barrier/NopGate are skipped. *)
Definition cl_kind (k : gk) : cls :=
  match k with
  | K1 BI | K1 BX | KCX | KCCX | KMCX _ => ZB
  | KBarrier | KNop => NOP
  | _ => HARD
  end.
Definition cl (g : gate) : cls := cl_kind (gkind g).
Definition is_zb (g : gate) : bool := match cl g with ZB => true | _ => false end.
Definition is_nop (g : gate) : bool := match cl g with NOP => true | _ => false end.

(* (start index, end index, gates of the section) *)
Definition sec := (nat * nat * list gate)%type.

Definition odef (o : option nat) : nat := match o with Some s => s | None => 0 end.

(* The loop of `decompile` over qc.gates + [sentinel]; [i] is the loop index,
   [cur] = current_section, [start] = current_section_start_index, [endi] =
   index after the last classical gate appended.  The sentinel (None,[0],None)
   is neither in ZB_GATES nor a NopGate: it takes the flush branch. *)
Fixpoint scan (i : nat) (cur : list gate) (start : option nat) (endi : nat) (c : circuit) : list sec :=
  match c with
  | [] => match cur with
          | [] => []
          | _ => [(odef start, endi, cur)]
          end
  | g :: r =>
      match cl g with
      | ZB => scan (S i) (cur ++ [g]) (match start with None => Some i | Some s => Some s end) (S i) r
      | NOP => scan (S i) cur start endi r
      | HARD =>
          match cur with
          | [] => scan (S i) [] start endi r               (* else: current_section = [] *)
          | _ => (odef start, endi, cur) :: scan (S i) [] None endi r
          end
      end
  end.

Definition sections (c : circuit) : list sec := scan 0 [] None 0 c.

(* ---- the code before the repair: end = i, minus one when gates[i-1] is a Nop ---- *)
Fixpoint scan_old (i : nat) (prev_nop : bool) (cur : list gate) (start : option nat) (c : circuit) : list sec :=
  let endi := if prev_nop then i - 1 else i in
  match c with
  | [] => match cur with
          | [] => []
          | _ => [(odef start, endi, cur)]
          end
  | g :: r =>
      match cl g with
      | ZB => scan_old (S i) false (cur ++ [g]) (match start with None => Some i | Some s => Some s end) r
      | NOP => scan_old (S i) true cur start r
      | HARD =>
          match cur with
          | [] => scan_old (S i) false [] start r
          | _ => (odef start, endi, cur) :: scan_old (S i) false [] None r
          end
      end
  end.

Definition sections_old (c : circuit) : list sec := scan_old 0 false [] None c.

(* ---- __exps_of_section ---- *)
Inductive res (A : Type) := Ok (a : A) | Err (code : N).
Arguments Ok {A} a.
Arguments Err {A} code.

(* the dict `exps`, in insertion order *)
Definition emap := list (nat * bexp).

Fixpoint eget (m : emap) (q : nat) : option bexp :=
  match m with
  | [] => None
  | (k, v) :: r => if Nat.eqb k q then Some v else eget r q
  end.

(* assignment to a key keeps the key's position; a new key goes last *)
Fixpoint eset (m : emap) (q : nat) (e : bexp) : emap :=
  match m with
  | [] => [(q, e)]
  | (k, v) :: r => if Nat.eqb k q then (k, e) :: r else (k, v) :: eset r q e
  end.

(* value of a qubit: its entry, or its own symbol when it has none *)
Definition egetd (m : emap) (q : nat) : bexp :=
  match eget m q with Some e => e | None => BSym q end.

Definition check_or_add (m : emap) (w : list nat) : emap :=
  fold_left (fun m q => match eget m q with Some _ => m | None => m ++ [(q, BSym q)] end) w m.

(* one gate; [old] = the code before the repair (gates.I raises) *)
Definition exps_step (old : bool) (m : emap) (g : gate) : res emap :=
  let m := check_or_add m (gqs g) in
  match gkind g, gqs g with
  | K1 BX, [t] => Ok (eset m t (BNot (egetd m t)))
  | KCX, [c; t] => Ok (eset m t (BXor [egetd m c; egetd m t]))
  | KCCX, [a; b; t] => Ok (eset m t (BXor [BAnd [egetd m a; egetd m b]; egetd m t]))
  | KMCX n, qs =>
      if Nat.eqb (length qs) (S n)
      then let t := last qs 0 in
           Ok (eset m t (BXor [BAnd (map (egetd m) (removelast qs)); egetd m t]))
      else Err 2
  | K1 BI, [_] => if old then Err 1 else Ok m
  | KBarrier, _ | KNop, _ => Ok m
  | K1 BX, _ | KCX, _ | KCCX, _ | K1 BI, _ => Err 2
  | _, _ => Err 1            (* "Gate not handled for decompilation" *)
  end.

Fixpoint exps_run (old : bool) (m : emap) (gs : list gate) : res emap :=
  match gs with
  | [] => Ok m
  | g :: r => match exps_step old m g with
              | Ok m' => exps_run old m' r
              | Err c => Err c
              end
  end.

Definition is_own (q : nat) (e : bexp) : bool :=
  match e with BSym i => Nat.eqb i q | _ => false end.

(* filter(lambda e: e[0] != e[1]) on the raw trees.  (sympy canonicalises while
   building: an entry such as Not(Not(q)) is already q there and is dropped;
   the correspondence check compares the lists up to that, semantically.) *)
Definition drop_own (m : emap) : emap := filter (fun qe => negb (is_own (fst qe) (snd qe))) m.

Definition exps_of_section_gen (old : bool) (gs : list gate) : res emap :=
  match exps_run old [] gs with
  | Ok m => Ok (drop_own m)
  | Err c => Err c
  end.
Definition exps_of_section := exps_of_section_gen false.
Definition exps_of_section_old := exps_of_section_gen true.

(* ---- decompile: sections with their expressions; an exception aborts the call ---- *)
Definition dsec := (nat * nat * list gate * emap)%type.

Fixpoint with_exps (old : bool) (l : list sec) : res (list dsec) :=
  match l with
  | [] => Ok []
  | (s, e, gs) :: r =>
      match exps_of_section_gen old gs with
      | Err c => Err c
      | Ok x => match with_exps old r with
                | Err c => Err c
                | Ok r' => Ok ((s, e, gs, x) :: r')
                end
      end
  end.

Definition decompile (c : circuit) : res (list dsec) := with_exps false (sections c).
Definition decompile_old (c : circuit) : res (list dsec) := with_exps true (sections_old c).
