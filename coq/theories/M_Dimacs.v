(* M_Dimacs.v — executable model of qlasskit/tools/py2bexp.py
   (convert_to_bool_expression, convert_to_dimacs, output_result) and of the
   entry-point selection of py2bexp.main / py2qasm.main
   (tools/utils.py:parse_file -> inspect.getmembers, tools/tools.py:find_last_qlassf).
   No proofs here.  sympy's to_cnf / to_anf / to_dnf / to_nnf and the library's
   merge_expressions are NOT modelled: they are oracles, given to the model as
   their results (the harness records the result of every call and checks the
   oracle contract per call: equivalent, and for to_cnf in CNF shape). *)
From Coq Require Import List Bool NArith ZArith Arith String Ascii.
From QV Require Import Bexp BexpTT.
Import ListNotations.
Local Open Scope Z_scope.

(* ------------------------------------------------------------------ *)
(* sympy .args of a boolean expression                                *)
Definition sargs (e : bexp) : list bexp :=
  match e with
  | BConst _ | BSym _ => []
  | BNot x => [x]
  | BAnd l | BOr l | BXor l => l
  | BIte c t f => [c; t; f]
  | BImp a b => [a; b]
  end.

Definition is_sym (e : bexp) : bool := match e with BSym _ => true | _ => false end.

(* ------------------------------------------------------------------ *)
(* var_dict = {symbol: i + 1 for i, symbol in enumerate(expr.free_symbols)}:
   [order] is the enumeration order of the free symbols (a set: any order)   *)
Fixpoint index_of (i : nat) (order : list nat) : option nat :=
  match order with
  | [] => None
  | x :: r => if Nat.eqb x i then Some O else option_map S (index_of i r)
  end.

(* var_dict[symbol]; None = KeyError *)
Definition var_num (order : list nat) (i : nat) : option Z :=
  option_map (fun k => Z.of_nat (S k)) (index_of i order).

(* the loop body over the literals of one clause (same in today's and the fixed code):
   Not(x) -> -var_dict[x]   (KeyError unless x is a numbered symbol)
   other  ->  var_dict[lit] (KeyError unless lit is a numbered symbol)        *)
Definition lit_num (order : list nat) (l : bexp) : option Z :=
  match l with
  | BNot (BSym i) => option_map Z.opp (var_num order i)
  | BSym i => var_num order i
  | _ => None
  end.

Fixpoint mapM {A B} (f : A -> option B) (l : list A) : option (list B) :=
  match l with
  | [] => Some []
  | x :: r => match f x, mapM f r with Some y, Some ys => Some (y :: ys) | _, _ => None end
  end.

(* the printed object: "p cnf <nvars> <nclauses>" and the clause lines *)
Definition dimacs := (nat * nat * list (list Z))%type.
Definition d_nvars (d : dimacs) : nat := fst (fst d).
Definition d_nclauses (d : dimacs) : nat := snd (fst d).
Definition d_clauses (d : dimacs) : list (list Z) := snd d.

(* ---- TODAY's convert_to_dimacs (py2bexp.py as found) ----
     clauses = to_cnf(expr).args
     if len(clauses) == 1 and isinstance(clauses[0], Symbol): clauses = [clauses]
   the special case wraps the TUPLE of args in a list, so the "literal" looked up
   in var_dict is the tuple itself: KeyError.  [cnf] is the oracle's result.   *)
Definition lits_today (c : bexp) : list bexp :=
  match c with BOr l => l | _ => [c] end.

Definition to_dimacs_today (cnf : bexp) (order : list nat) : option dimacs :=
  let clauses := sargs cnf in
  match clauses with
  | [BSym _] => None                                   (* KeyError((a,)) *)
  | _ =>
      match mapM (fun c => mapM (lit_num order) (lits_today c)) clauses with
      | Some cls => Some (List.length order, List.length cls, cls)
      | None => None
      end
  end.

(* ---- FIXED convert_to_dimacs (proposed_fixes/C17_2_dimacs_clauses.diff) ----
     cnf = to_cnf(expr)
     if isinstance(cnf, And): clauses = cnf.args
     elif cnf == true:        clauses = []
     else:                    clauses = [cnf]
     per clause: Or -> its args; false -> [] (the empty clause); other -> [clause] *)
Definition clauses_fixed (cnf : bexp) : list bexp :=
  match cnf with
  | BAnd l => l
  | BConst true => []
  | _ => [cnf]
  end.

Definition lits_fixed (c : bexp) : list bexp :=
  match c with
  | BOr l => l
  | BConst false => []
  | _ => [c]
  end.

Definition to_dimacs_fixed (cnf : bexp) (order : list nat) : option dimacs :=
  match mapM (fun c => mapM (lit_num order) (lits_fixed c)) (clauses_fixed cnf) with
  | Some cls => Some (List.length order, List.length cls, cls)
  | None => None
  end.

(* ---- meaning of a printed clause list under an assignment of the numbers ---- *)
Definition lit_sat (s : nat -> bool) (z : Z) : bool :=
  if 0 <? z then s (Z.to_nat z) else negb (s (Z.to_nat (- z))).
Definition clause_sat (s : nat -> bool) (c : list Z) : bool := existsb (lit_sat s) c.
Definition dimacs_sat (s : nat -> bool) (cls : list (list Z)) : bool := forallb (clause_sat s) cls.

(* every literal is a non-zero number of absolute value <= nvars *)
Definition lit_in_range (nv : nat) (z : Z) : bool :=
  negb (z =? 0) && (Z.abs z <=? Z.of_nat nv).
Definition well_numbered (nv : nat) (cls : list (list Z)) : bool :=
  forallb (forallb (lit_in_range nv)) cls.

(* ---- CNF shape: what the to_cnf oracle promises ---- *)
Definition is_lit (e : bexp) : bool :=
  match e with BSym _ => true | BNot (BSym _) => true | _ => false end.
Definition is_clause (c : bexp) : bool :=
  match c with
  | BOr l => forallb is_lit l
  | BConst false => true
  | _ => is_lit c
  end.
Definition cnf_shape (e : bexp) : bool :=
  match e with
  | BAnd l => forallb is_clause l
  | BConst true => true
  | _ => is_clause e
  end.

(* ------------------------------------------------------------------ *)
(* convert_to_bool_expression: WHICH expressions are conjoined.
   qlassf.expressions is a list of (symbol, expression) evaluated in order
   (intermediates x0, x1, ... then the return bits).                       *)

(* today: And( *[expr[1] for expr in qlassf.expressions]) — every right-hand side *)
Definition conj_today (exprs : defs) : bexp := BAnd (map snd exprs).

(* fixed: And( *[e for _, e in merge_expressions(qlassf.expressions)]);
   [merged] is the result of the merge_expressions oracle *)
Definition conj_fixed (merged : defs) : bexp := BAnd (map snd merged).

(* the value the property speaks of: all return bits true, each return bit being
   the value of its symbol after running the definitions on the argument bits *)
Definition rets_all_true (env : nat -> bool) (exprs : defs) (rets : list nat) : bool :=
  forallb (run_defs env exprs) rets.

(* contract of the merge_expressions oracle for a given list [rets] of return symbols *)
Definition merge_contract (exprs merged : defs) (rets : list nat) (n : nat) : Prop :=
  map fst merged = rets /\
  (forall s e, In (s, e) merged -> syms_below n e = true) /\
  (forall env s e, In (s, e) merged -> beval env e = run_defs env exprs s).

(* output_result, dimacs branch: to_cnf again (oracle result [cnf2]) then print *)
Definition output_dimacs_fixed (cnf2 : bexp) (order : list nat) := to_dimacs_fixed cnf2 order.

(* ------------------------------------------------------------------ *)
(* entry-point selection.
   The script's module namespace binds names in definition order (a later
   binding of a name replaces an earlier one); inspect.getmembers returns the
   members sorted by name; find_last_qlassf takes the last of that list;
   "-e name" takes the first member with that name; an empty option string is
   falsy in Python and behaves as no option.                                *)
Section Select.
  Context {A : Type}.

  Definition str_leb (a b : string) : bool :=
    match String.compare a b with Gt => false | _ => true end.

  Fixpoint insert_member (p : string * A) (l : list (string * A)) : list (string * A) :=
    match l with
    | [] => [p]
    | q :: r =>
        if String.eqb (fst p) (fst q) then p :: r          (* rebinding replaces *)
        else if str_leb (fst p) (fst q) then p :: q :: r
        else q :: insert_member p r
    end.

  (* members in definition order -> getmembers order *)
  Definition getmembers (defs_in_order : list (string * A)) : list (string * A) :=
    fold_left (fun acc p => insert_member p acc) defs_in_order [].

  Definition find_last_qlassf (l : list (string * A)) : option A :=
    match rev l with [] => None | p :: _ => Some (snd p) end.

  Definition find_named (n : string) (l : list (string * A)) : option A :=
    option_map snd (find (fun p => String.eqb (fst p) n) l).

  Definition select_members (entry : option string) (l : list (string * A)) : option A :=
    match entry with
    | Some n => if String.eqb n EmptyString then find_last_qlassf l else find_named n l
    | None => find_last_qlassf l
    end.

  Definition select (entry : option string) (defs_in_order : list (string * A)) : option A :=
    select_members entry (getmembers defs_in_order).
End Select.
