(* Chk_Texp.v — functions the correspondence harness (harness/c01_texp.py)
   evaluates with vm_compute on what it observed from the REAL translator
   (qlasskit.ast2logic.translate_ast on the function normalised by ast2ast).

   For one program the harness sends: the number n of input bits, the numbering
   of every symbol name it met (inputs 0..n-1 in argument order, n reserved,
   the others from n+1), the argument list with the types the implementation
   resolved, the declared return type, the NORMALISED body converted to
   pexp / pstmt, and the observation: "raised", or the implementation's
   argument bindings, return binding, list of defined symbol names in order and
   the definition list (numbered symbols, sympy trees as bexp).

   chk_trans : acceptance, argument and return bindings (type and bit names),
               the defined names in order, and the truth table of EVERY
               definition at its place in the list on all 2^n assignments.
   chk_eval  : the reference evaluator M_Texp.eval_fun against the shadow
               execution of the ORIGINAL source by CPython (harness/shadow.py),
               on sample inputs, where both are defined.
   chk_thm   : the instance of the soundness corollary on sample inputs: the
               model's definition list run by BexpTT.run_defs yields the bits of
               the value the reference evaluator returns (only meaningful when the
               guards hold: reported together with the guard). *)
From Coq Require Import List Bool NArith ZArith Arith.
From QV Require Import Bits Bexp BexpTT M_Codec Generated M_Types M_Texp.
Import ListNotations.

Definition ntab := list (sname * nat).
Definition num_tab (tab : ntab) (dflt : nat) : sname -> nat :=
  fun s => match find (fun p => sname_eqb (fst p) s) tab with Some p => snd p | None => dflt end.

Record prog := mkprog {
  p_n : nat; p_tab : ntab; p_args : list (ident * ty); p_ret : ty; p_body : list pstmt }.

Definition p_num (p : prog) : sname -> nat := num_tab (p_tab p) (p_n p).

Inductive iobs :=
| IRaise
| IOk (args : list (ident * binding)) (ret : binding) (names : list sname) (ds : defs).

Definition binding_eqb (a b : binding) : bool := ty_eq (fst a) (fst b) && snames_eqb (snd a) (snd b).
Fixpoint bindings_eqb (a b : list (ident * binding)) : bool :=
  match a, b with
  | [], [] => true
  | (x, u) :: a', (y, v) :: b' => Nat.eqb x y && binding_eqb u v && bindings_eqb a' b'
  | _, _ => false
  end.

(* the table written by each definition, in order *)
Fixpoint run_trace (m : N) (tbl : list N) (ds : defs) : list N :=
  match ds with
  | [] => []
  | (s, e) :: r => let v := tt_eval m (tenv tbl) e in v :: run_trace m (upd 0%N tbl s v) r
  end.

Definition tables_equal (m : N) (a b : list N) : bool :=
  Nat.eqb (length a) (length b)
  && forallb (fun p => (tt_diff m (fst p) (snd p) =? 0)%N) (combine a b).

(* 0 agree; 1 model rejects, implementation accepts; 2 model accepts, implementation
   raises; 3 argument / return binding differs; 4 defined names differ; 5 a definition
   has another truth table; 6 the numbering is not injective on the defined names *)
Definition chk_trans1 (p : prog) (o : iobs) : N :=
  let num := p_num p in
  match trans_fun num (p_args p) (p_ret p) (p_body p), o with
  | None, IRaise => 0
  | None, IOk _ _ _ _ => 1
  | Some _, IRaise => 2
  | Some lf, IOk args ret names ds =>
      if negb (bindings_eqb (lf_args lf) args && binding_eqb (lf_ret lf) ret) then 3
      else if negb (snames_eqb (map fst (lf_defs lf)) names) then 4
      else if negb (forallb (fun nd => Nat.eqb (num (fst nd)) (snd nd)) (combine names (map fst ds))) then 6
      else
        let m := tt_mask (p_n p) in
        let tbl := input_tables (p_n p) in
        if tables_equal m (run_trace m tbl (numbered num (lf_defs lf))) (run_trace m tbl ds) then 0 else 5
  end%N.

(* names and bindings only (programs with too many input bits for truth tables) *)
Definition chk_shape1 (p : prog) (o : iobs) : N :=
  let num := p_num p in
  match trans_fun num (p_args p) (p_ret p) (p_body p), o with
  | None, IRaise => 0
  | None, IOk _ _ _ _ => 1
  | Some _, IRaise => 2
  | Some lf, IOk args ret names ds =>
      if negb (bindings_eqb (lf_args lf) args && binding_eqb (lf_ret lf) ret) then 3
      else if negb (snames_eqb (map fst (lf_defs lf)) names) then 4
      else 0
  end%N.

(* the side condition of the soundness corollary: every statement is in the syntactic class, or its
   definitions can be read simultaneously (seq_ok evaluated here) *)
Definition chk_guard1 (p : prog) : bool :=
  body_guard2 (p_num p) (arg_env (p_args p)) (p_ret p) (p_body p).
(* every statement in the syntactic class (then P_Texp proves the simultaneous reading: nothing is
   evaluated per program); outside the class seq_ok is evaluated (body_guard2) *)
Definition chk_class1 (p : prog) : bool := forallb stmt_class (p_body p).
(* ... and the two facts the theorems derive from an injective numbering, evaluated on the
   numbering TABLE of this run: assigned symbol numbers distinct, no other binding clobbered *)
Definition chk_hyg1 (p : prog) : bool :=
  body_guard_g true (p_num p) (arg_env (p_args p)) (p_ret p) (p_body p).
(* the hypothesis on the signature: ty_good argument / return types (no sized component of
   fewer than 2 bits) *)
Definition chk_wf1 (p : prog) : bool :=
  forallb (fun a => ty_good (snd a)) (p_args p) && ty_good (p_ret p).

(* does the program contain an if-expression whose branches have DIFFERENT translated types
   (the code widens the narrower branch; harness/shadow.py keeps CPython's dynamic width)? *)
Fixpoint mixed_if (num : sname -> nat) (G : env) (e : pexp) : bool :=
  match e with
  | EIf c t f =>
      mixed_if num G c || mixed_if num G t || mixed_if num G f ||
      match trans_exp num G t, trans_exp num G f with
      | Some rt, Some rf => negb (ty_eq (fst rt) (fst rf))
      | _, _ => false
      end
  | EBoolOp _ l | ETuple l => existsb (mixed_if num G) l
  | EUn _ a | EInt a | EFloat a => mixed_if num G a
  | ECmp _ a b | EBin _ a b => mixed_if num G a || mixed_if num G b
  | _ => false
  end.
Fixpoint mixed_if_body (num : sname -> nat) (G : env) (rt : ty) (body : list pstmt) : bool :=
  match body with
  | [] => false
  | s :: r =>
      match s with SAssign _ e | SReturn e | SExpr e => mixed_if num G e | SRaise => false end
      || match trans_stmt num G rt s with
         | Some dg => mixed_if_body num (snd dg) rt r
         | None => false
         end
  end.
(* does the program bind a bare integer literal to a name (`t = 3`, `t = 5 if p else t`)?  The code
   types the literal at the narrowest constant width and the name keeps that width; in the shadow
   run the name holds an untyped Python int until it meets a typed value *)
Fixpoint top_const (e : pexp) : bool :=
  match e with
  | EConst (CInt _) => true
  | EIf _ t f => top_const t || top_const f
  | _ => false
  end.
Definition binds_literal (body : list pstmt) : bool :=
  existsb (fun s => match s with SAssign _ e => top_const e | _ => false end) body.

(* 1 = mixed-width if-expression, 2 = a name bound to an integer literal, 3 = both: id * 10 + code *)
Definition chk_mixed (l : list (N * (prog * iobs))) : list N :=
  flat_map (fun c => let p := fst (snd c) in
                     let a := mixed_if_body (p_num p) (arg_env (p_args p)) (p_ret p) (p_body p) in
                     let b := binds_literal (p_body p) in
                     match a, b with
                     | false, false => []
                     | true, false => [(fst c * 10 + 1)%N]
                     | false, true => [(fst c * 10 + 2)%N]
                     | true, true => [(fst c * 10 + 3)%N]
                     end) l.

(* ---- the reference evaluator against the shadow execution ---- *)
Fixpoint bools_eqb (a b : list bool) : bool :=
  match a, b with
  | [], [] => true
  | x :: a', y :: b' => Bool.eqb x y && bools_eqb a' b'
  | _, _ => false
  end.

(* 0 both defined and equal; 1 both defined and DIFFERENT; 2 only the shadow run is
   defined; 3 only the model's evaluator is defined; 4 neither *)
Definition chk_eval1 (p : prog) (vs : list value) (sh : option (list bool)) : N :=
  match eval_fun (p_args p) (p_ret p) (p_body p) vs, sh with
  | Some v, Some bits => if bools_eqb (encode v) bits then 0 else 1
  | None, Some _ => 2
  | Some _, None => 3
  | None, None => 4
  end%N.

(* ---- the instance of the corollary ---- *)
(* 0 holds; 1 FAILS; 2 not applicable (translation or evaluation undefined) *)
Definition chk_thm1 (p : prog) (vs : list value) : N :=
  let num := p_num p in
  let G0 := arg_env (p_args p) in
  match trans_body num G0 (p_ret p) (p_body p), eval_fun (p_args p) (p_ret p) (p_body p) vs with
  | Some (ds, G'), Some v =>
      (* run_defs on ONE assignment, computed on one-bit tables (run_defs_tt_spec with mask 1) *)
      let tbl0 := map N.b2n (flat_map encode vs) in
      let tbl := run_defs_tt 1 tbl0 (numbered num ds) in
      match lookup G' ret_id with
      | Some (t, bv) =>
          match decode t (map (fun s => N.odd (tenv tbl (num s))) bv) with
          | Some v' => if value_eqb v v' then 0 else 1
          | None => 1
          end
      | None => 2
      end
  | _, _ => 2
  end%N.

(* ---- case lists: (id, ...) -> id * 10 + code for every non-zero code ---- *)
Definition codes {A} (f : A -> N) (l : list (N * A)) : list N :=
  flat_map (fun c => match f (snd c) with 0%N => [] | k => [(fst c * 10 + k)%N] end) l.

Definition chk_trans (l : list (N * (prog * iobs))) : list N :=
  codes (fun c => chk_trans1 (fst c) (snd c)) l.
Definition chk_shape (l : list (N * (prog * iobs))) : list N :=
  codes (fun c => chk_shape1 (fst c) (snd c)) l.
(* ids of the ACCEPTED programs outside the guards (for a rejected program the harness has no
   numbering of the symbols the model would define) *)
Definition chk_guard (l : list (N * (prog * iobs))) : list N :=
  flat_map (fun c => match snd (snd c) with
                     | IRaise => []
                     | IOk _ _ _ _ => if chk_guard1 (fst (snd c)) then [] else [fst c]
                     end) l.

(* accepted programs: id * 10 + (1 if the numbering table fails the hygiene facts) + (2 if the
   signature hypotheses fail) + (4 if some statement is outside the syntactic class) *)
Definition chk_side (l : list (N * (prog * iobs))) : list N :=
  flat_map (fun c => match snd (snd c) with
                     | IRaise => []
                     | IOk _ _ _ _ =>
                         let p := fst (snd c) in
                         let k := ((if chk_hyg1 p then 0 else 1) + (if chk_wf1 p then 0 else 2)
                                   + (if chk_class1 p then 0 else 4))%N in
                         match k with 0%N => [] | _ => [(fst c * 10 + k)%N] end
                     end) l.

(* all codes are reported here (0 included): id * 10 + code *)
Definition chk_eval (l : list (N * (prog * iobs))) (samples : list (N * list (list value * option (list bool)))) : list N :=
  flat_map (fun s =>
    match find (fun c => (fst c =? fst s)%N) l with
    | Some c => map (fun vb => (fst s * 10 + chk_eval1 (fst (snd c)) (fst vb) (snd vb))%N) (snd s)
    | None => []
    end) samples.
Definition chk_thm (l : list (N * (prog * iobs))) (samples : list (N * list (list value * option (list bool)))) : list N :=
  flat_map (fun s =>
    match find (fun c => (fst c =? fst s)%N) l with
    | Some c => map (fun vb => (fst s * 10 + chk_thm1 (fst (snd c)) (fst vb))%N) (snd s)
    | None => []
    end) samples.
