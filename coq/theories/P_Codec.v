(* P_Codec.v — lemmas about the codec model (M_Codec.v). *)
From Coq Require Import List Bool NArith Arith Lia.
From QV Require Import Bits M_Codec.
Import ListNotations.
Local Open Scope N_scope.

(* ---------- strings ---------- *)
Lemma is1_ch_of_bool b : is1 (ch_of_bool b) = b.
Proof. now destruct b. Qed.

Lemma map_is1_ch l : map is1 (map ch_of_bool l) = l.
Proof. induction l as [|b l IH]; cbn [map]; [reflexivity|now rewrite is1_ch_of_bool, IH]. Qed.

Lemma py_int2_snoc s c : py_int2 (s ++ [c]) = 2 * py_int2 s + N.b2n (is1 c).
Proof. unfold py_int2. now rewrite fold_left_app. Qed.

Lemma py_int2_rev_bits v : py_int2 (bool_list_to_bin (rev v)) = bits_val v.
Proof.
  unfold bool_list_to_bin.
  induction v as [|b v IH]; cbn [rev bits_val]; [reflexivity|].
  rewrite map_app. cbn [map]. rewrite py_int2_snoc, IH, is1_ch_of_bool. lia.
Qed.

Lemma py_int2_rev_bits' v : py_int2 (rev (bool_list_to_bin v)) = bits_val v.
Proof. unfold bool_list_to_bin. rewrite <- map_rev. apply py_int2_rev_bits. Qed.

(* big-endian value, structurally *)
Fixpoint be_val (l : list bool) : N :=
  match l with [] => 0 | b :: r => N.b2n b * 2 ^ N.of_nat (length r) + be_val r end.

Lemma be_val_bits l : be_val l = bits_val (rev l).
Proof.
  induction l as [|b r IH]; cbn [be_val rev]; [reflexivity|].
  rewrite bits_val_app, rev_length, IH. cbn [bits_val]. lia.
Qed.

Lemma py_int2_be l : py_int2 (bool_list_to_bin l) = be_val l.
Proof. rewrite be_val_bits, <- py_int2_rev_bits, rev_involutive. reflexivity. Qed.

Lemma be_val_bound l : be_val l < 2 ^ N.of_nat (length l).
Proof. rewrite be_val_bits, <- rev_length. apply bits_val_bound. Qed.

(* ---------- nbits ---------- *)
Lemma nbits_zero b : nbits b 0 = repeat false b.
Proof. induction b as [|b IH]; cbn [nbits repeat N.odd N.div2]; [reflexivity|]. now rewrite IH. Qed.

Lemma div2_lt v a : v < 2 ^ N.of_nat (S a) -> N.div2 v < 2 ^ N.of_nat a.
Proof.
  rewrite Nat2N.inj_succ, N.pow_succ_r', N.div2_div. intros H.
  apply N.div_lt_upper_bound; lia.
Qed.

Lemma nbits_extend a b v : v < 2 ^ N.of_nat a -> nbits (a + b) v = nbits a v ++ repeat false b.
Proof.
  revert v; induction a as [|a IH]; intros v Hv.
  - cbn in Hv. assert (v = 0) by lia. subst. apply nbits_zero.
  - cbn [Nat.add nbits app]. f_equal. apply IH. now apply div2_lt.
Qed.

Lemma rev_repeat {A} (x : A) n : rev (repeat x n) = repeat x n.
Proof.
  induction n as [|n IH]; [reflexivity|]. cbn [repeat rev]. rewrite IH.
  clear IH. induction n as [|n IH]; [reflexivity|]. cbn [repeat app]. now rewrite IH.
Qed.

Lemma size_le_width v w : 0 < v -> v < 2 ^ N.of_nat w -> (N.to_nat (N.size v) <= w)%nat.
Proof.
  intros H0 Hv. rewrite N.size_log2 by lia.
  apply N.log2_lt_pow2 in Hv; lia.
Qed.

Lemma lt_pow2_size v : v < 2 ^ N.of_nat (N.to_nat (N.size v)).
Proof. rewrite N2Nat.id. apply N.size_gt. Qed.

(* bin(v) read back at width w, little-endian *)
Lemma bin_to_bool_list_py_bin w v :
  v < 2 ^ N.of_nat w -> rev (bin_to_bool_list (py_bin v) (Some w)) = nbits w v.
Proof.
  intros Hv. unfold bin_to_bool_list, py_bin. cbn [strip0b].
  destruct (N.eq_dec v 0) as [->|Hnz].
  - cbn [bin_digits map]. rewrite nbits_zero.
    destruct w as [|w]; [reflexivity|].
    cbn [firstn map length]. rewrite firstn_nil. cbn [map length].
    replace (S w - 1)%nat with w by lia.
    rewrite rev_app_distr, rev_repeat. cbn [rev app repeat]. reflexivity.
  - assert (H0 : 0 < v) by lia.
    pose proof (size_le_width v w H0 Hv) as Hs.
    unfold bin_digits. destruct v as [|p]; [lia|].
    set (s := N.to_nat (N.size (N.pos p))) in *.
    rewrite firstn_all2 by (rewrite map_length, rev_length, nbits_length; lia).
    rewrite map_is1_ch, rev_length, nbits_length.
    rewrite rev_app_distr, rev_involutive, rev_repeat.
    replace w with (s + (w - s))%nat at 2 by lia.
    symmetry. apply nbits_extend. apply lt_pow2_size.
Qed.

(* ---------- Qint ---------- *)
Lemma qint_to_bool_spec w v : v < 2 ^ N.of_nat w -> qint_to_bool w v = nbits w v.
Proof. apply bin_to_bool_list_py_bin. Qed.

Lemma qint_from_bool_spec w l : qint_from_bool w l = bits_val l mod 2 ^ N.of_nat w.
Proof. unfold qint_from_bool, qint_new. now rewrite py_int2_rev_bits. Qed.

Lemma qint_from_bool_range w l : qint_from_bool w l < 2 ^ N.of_nat w.
Proof. rewrite qint_from_bool_spec. apply N.mod_lt. apply N.pow_nonzero. lia. Qed.

Lemma qint_to_from w l : length l = w -> qint_to_bool w (qint_from_bool w l) = l.
Proof.
  intros Hl. rewrite qint_to_bool_spec by apply qint_from_bool_range.
  rewrite qint_from_bool_spec. pose proof (bits_val_bound l) as Hb. rewrite Hl in Hb.
  rewrite N.mod_small by exact Hb. subst w. apply nbits_bits_val.
Qed.

Lemma qint_from_to w v : v < 2 ^ N.of_nat w -> qint_from_bool w (qint_to_bool w v) = v.
Proof.
  intros Hv. rewrite qint_to_bool_spec by exact Hv.
  rewrite qint_from_bool_spec, bits_val_nbits, N.mod_mod by (apply N.pow_nonzero; lia).
  now apply N.mod_small.
Qed.

Lemma fill_b_spec w l : (length l <= w)%nat -> fill_b w l = l ++ repeat false (w - length l).
Proof.
  intros H. unfold fill_b. destruct (Nat.leb_spec w (length l)) as [Hle|Hlt]; [|reflexivity].
  replace (w - length l)%nat with 0%nat by lia. cbn [repeat]. now rewrite app_nil_r.
Qed.

Lemma rev_bin_digits w v : (0 < w)%nat -> v < 2 ^ N.of_nat w ->
  fill_b w (rev (bin_digits v)) = nbits w v.
Proof.
  intros Hw Hv. destruct (N.eq_dec v 0) as [->|Hnz].
  - cbn [bin_digits rev app]. rewrite fill_b_spec by (cbn; lia). cbn [length app].
    rewrite nbits_zero. destruct w as [|w]; [lia|]. cbn [repeat]. f_equal. f_equal. lia.
  - assert (H0 : 0 < v) by lia. pose proof (size_le_width v w H0 Hv) as Hs.
    unfold bin_digits. destruct v as [|p]; [lia|].
    set (s := N.to_nat (N.size (N.pos p))) in *.
    rewrite rev_involutive, fill_b_spec by (rewrite nbits_length; lia).
    rewrite nbits_length. replace w with (s + (w - s))%nat at 2 by lia.
    symmetry. apply nbits_extend, lt_pow2_size.
Qed.

Lemma qint_const_spec w v : (0 < w)%nat -> qint_const w v = nbits w (v mod 2 ^ N.of_nat w).
Proof.
  intros Hw. unfold qint_const, py_bin. cbn [skipn]. rewrite map_is1_ch.
  apply rev_bin_digits; [exact Hw|]. apply N.mod_lt, N.pow_nonzero. lia.
Qed.

(* const(v) is the runtime encoding of the object built from v *)
Lemma qint_const_runtime w v : (0 < w)%nat -> qint_const w v = qint_to_bool w (qint_new w v).
Proof.
  intros Hw. rewrite qint_const_spec by exact Hw. unfold qint_new.
  symmetry. apply qint_to_bool_spec. apply N.mod_lt, N.pow_nonzero. lia.
Qed.

Lemma qint_amp_onehot w v : v < 2 ^ N.of_nat w ->
  qint_amp w v = (2 ^ N.of_nat w, bits_val (qint_to_bool w v)).
Proof.
  intros Hv. unfold qint_amp. rewrite qint_to_bool_spec by exact Hv.
  now rewrite bits_val_nbits_small.
Qed.

(* ---------- Qchar ---------- *)
Lemma qchar_to_from l : length l = 8%nat -> qchar_to_bool (qchar_from_bool l) = l.
Proof.
  intros Hl. unfold qchar_to_bool, qchar_from_bool. rewrite py_int2_rev_bits'.
  pose proof (bits_val_bound l) as Hb. rewrite Hl in Hb.
  rewrite bin_to_bool_list_py_bin by exact Hb. rewrite <- Hl. apply nbits_bits_val.
Qed.

Lemma qchar_from_to c : c < 2 ^ 8 -> qchar_from_bool (qchar_to_bool c) = c.
Proof.
  intros Hc. unfold qchar_to_bool, qchar_from_bool. rewrite py_int2_rev_bits'.
  rewrite (bin_to_bool_list_py_bin 8 c) by exact Hc. now apply bits_val_nbits_small.
Qed.

Lemma qchar_const_runtime c : c < 2 ^ 8 -> qchar_const c = qchar_to_bool c.
Proof.
  intros Hc. unfold qchar_const, qchar_to_bool.
  rewrite (bin_to_bool_list_py_bin 8 c) by exact Hc.
  unfold bin_to_bool_list, py_bin. cbn [strip0b].
  rewrite firstn_all, !map_length, Nat.sub_diag. cbn [repeat app]. rewrite map_is1_ch.
  apply (rev_bin_digits 8 c); [lia|exact Hc].
Qed.

Lemma qchar_amp_onehot c : c < 2 ^ 8 -> qchar_amp c = (2 ^ 8, bits_val (qchar_to_bool c)).
Proof.
  intros Hc. unfold qchar_amp, qchar_to_bool.
  rewrite (bin_to_bool_list_py_bin 8 c) by exact Hc. now rewrite bits_val_nbits_small.
Qed.

(* ---------- Qfixed ---------- *)
Lemma frac_arith1 q b P D v : v < P -> b < 2 -> 0 < D ->
  (q * (2 * P * D) + (b * P + v) * D) mod (2 * P * D) = (b * P + v) * D.
Proof.
  intros Hv Hb HD. rewrite N.add_comm, N.mod_add by nia. apply N.mod_small. nia.
Qed.

Lemma frac_arith2 b P D v : v < P -> 0 < D -> (2 * ((b * P + v) * D)) / (2 * P * D) = b.
Proof.
  intros Hv HD. symmetry. apply (N.div_unique _ _ b (2 * v * D)); nia.
Qed.

Lemma b2n_eqb1 b : (N.b2n b =? 1) = b.
Proof. now destruct b. Qed.

Lemma frac_loop_spec l : forall d q,
  frac_loop (length l)
    (mkdy (q * 2 ^ N.of_nat (length l + d) + be_val l * 2 ^ N.of_nat d) (length l + d)) = l.
Proof.
  induction l as [|b r IH]; intros d q; [reflexivity|].
  cbn [length frac_loop be_val].
  set (n := length r). set (P := 2 ^ N.of_nat n). set (D := 2 ^ N.of_nat d).
  assert (HP : 2 ^ N.of_nat (S n + d) = 2 * P * D).
  { unfold P, D. rewrite <- N.pow_succ_r', <- N.pow_add_r. f_equal. lia. }
  assert (HD : 0 < D) by (unfold D; apply N.neq_0_lt_0, N.pow_nonzero; lia).
  assert (Hv : be_val r < P) by apply be_val_bound.
  assert (Hb : N.b2n b < 2) by (destruct b; cbn; lia).
  unfold dy_dbl, dy_mod1, dy_int. cbn [dnum dexp]. rewrite HP.
  rewrite frac_arith1 by assumption. rewrite frac_arith2 by assumption.
  rewrite b2n_eqb1. f_equal.
  specialize (IH (S d) (N.b2n b)).
  replace (S n + d)%nat with (n + S d)%nat by lia.
  fold n in IH. rewrite <- IH at 2. f_equal. f_equal.
  replace (2 ^ N.of_nat (n + S d)) with (2 * P * D)
    by (rewrite <- HP; f_equal; lia).
  replace (2 ^ N.of_nat (S d)) with (2 * D)
    by (unfold D; rewrite Nat2N.inj_succ, N.pow_succ_r'; reflexivity).
  lia.
Qed.

Lemma frac_loop_spec0 l q :
  frac_loop (length l) (mkdy (q * 2 ^ N.of_nat (length l) + be_val l) (length l)) = l.
Proof.
  pose proof (frac_loop_spec l 0 q) as H. rewrite Nat.add_0_r in H.
  change (N.of_nat 0) with 0 in H. rewrite N.pow_0_r, N.mul_1_r in H. exact H.
Qed.

Lemma frac_loop_val f n :
  frac_loop f (mkdy n f) = rev (nbits f (n mod 2 ^ N.of_nat f)).
Proof.
  assert (H2 : 2 ^ N.of_nat f <> 0) by (apply N.pow_nonzero; lia).
  set (r := n mod 2 ^ N.of_nat f). set (l := rev (nbits f r)).
  assert (Hl : length l = f) by (unfold l; now rewrite rev_length, nbits_length).
  assert (Hr : be_val l = r).
  { unfold l. rewrite be_val_bits, rev_involutive. apply bits_val_nbits_small.
    unfold r. now apply N.mod_lt. }
  pose proof (frac_loop_spec0 l (n / 2 ^ N.of_nat f)) as H.
  rewrite Hl, Hr in H. unfold r in H at 1.
  rewrite (N.mul_comm (n / _)), <- N.div_mod' in H. exact H.
Qed.

Lemma qfixed_to_from i f v : length v = (i + f)%nat ->
  qfixed_to_bool i f (qfixed_from_bool i f v) = v.
Proof.
  intros Hl. unfold qfixed_to_bool, qfixed_from_bool.
  set (ip := firstn i v). set (fp := skipn i v).
  assert (Hip : length ip = i) by (unfold ip; rewrite firstn_length; lia).
  assert (Hfp : length fp = f) by (unfold fp; rewrite skipn_length; lia).
  rewrite py_int2_rev_bits, py_int2_be, Hfp.
  assert (H2 : 2 ^ N.of_nat f <> 0) by (apply N.pow_nonzero; lia).
  assert (Hfr : be_val fp < 2 ^ N.of_nat f) by (rewrite <- Hfp; apply be_val_bound).
  assert (Hiv : bits_val ip < 2 ^ N.of_nat i) by (rewrite <- Hip; apply bits_val_bound).
  unfold dy_int at 1. cbn [dnum dexp].
  rewrite N.div_add_l by exact H2. rewrite (N.div_small _ _ Hfr), N.add_0_r.
  rewrite (N.mod_small _ _ Hiv).
  rewrite bin_to_bool_list_py_bin by exact Hiv.
  rewrite <- Hip at 1. rewrite nbits_bits_val.
  pose proof (frac_loop_spec0 fp (bits_val ip)) as Hfl. rewrite Hfp in Hfl. rewrite Hfl.
  unfold ip, fp. apply firstn_skipn.
Qed.

Lemma qfixed_from_to i f n : n < 2 ^ N.of_nat (i + f) ->
  qfixed_from_bool i f (qfixed_to_bool i f (mkdy n f)) = mkdy n f.
Proof.
  intros Hn. unfold qfixed_to_bool, qfixed_from_bool.
  assert (H2 : 2 ^ N.of_nat f <> 0) by (apply N.pow_nonzero; lia).
  assert (Hq : n / 2 ^ N.of_nat f < 2 ^ N.of_nat i).
  { apply N.div_lt_upper_bound; [exact H2|].
    rewrite <- N.pow_add_r. replace (N.of_nat f + N.of_nat i) with (N.of_nat (i + f)) by lia. exact Hn. }
  unfold dy_int. cbn [dnum dexp]. rewrite (N.mod_small _ _ Hq).
  rewrite bin_to_bool_list_py_bin by exact Hq.
  rewrite frac_loop_val.
  set (a := nbits i (n / 2 ^ N.of_nat f)). set (r := n mod 2 ^ N.of_nat f).
  assert (Ha : length a = i) by (unfold a; apply nbits_length).
  rewrite firstn_app, skipn_app, Ha, Nat.sub_diag. cbn [firstn skipn].
  rewrite firstn_all2, skipn_all2 by lia. rewrite app_nil_r. cbn [app].
  rewrite py_int2_rev_bits, py_int2_be, be_val_bits, rev_involutive, rev_length, nbits_length.
  unfold a. rewrite bits_val_nbits_small by exact Hq.
  rewrite bits_val_nbits_small by (unfold r; now apply N.mod_lt).
  f_equal. unfold r. rewrite (N.mul_comm (n / _)). symmetry. apply N.div_mod'.
Qed.

Lemma qfixed_amp_onehot i f x :
  qfixed_amp i f x = (2 ^ N.of_nat (i + f), bits_val (qfixed_to_bool i f x)).
Proof. unfold qfixed_amp. now rewrite py_int2_rev_bits'. Qed.

Lemma frac_loop_length f x : length (frac_loop f x) = f.
Proof. revert x; induction f as [|f IH]; intros x; cbn [frac_loop length]; [reflexivity|now rewrite IH]. Qed.

Lemma qfixed_to_bool_length i f x : length (qfixed_to_bool i f x) = (i + f)%nat.
Proof.
  unfold qfixed_to_bool. rewrite app_length, frac_loop_length.
  rewrite bin_to_bool_list_py_bin, nbits_length; [reflexivity|].
  apply N.mod_lt, N.pow_nonzero. lia.
Qed.

(* ---------- const_to_qtype (int) ---------- *)
Lemma const_int_search_spec ws v w bits :
  Forall (fun w => 0 < w)%nat ws ->
  const_int_search ws v = Some (w, bits) ->
  In w ws /\ v < 2 ^ N.of_nat w /\ bits = nbits w v /\
  (forall pre post, ws = pre ++ w :: post -> ~ In w pre -> Forall (fun w' => 2 ^ N.of_nat w' <= v) pre).
Proof.
  induction ws as [|w0 r IH]; intros Hpos H; [discriminate|].
  cbn [const_int_search] in H. inversion Hpos as [|? ? Hw0 Hr]; subst.
  destruct (N.ltb_spec v (2 ^ N.of_nat w0)) as [Hlt|Hge].
  - injection H as <- <-. repeat split; [now left|exact Hlt| |].
    + rewrite qint_const_spec by exact Hw0. now rewrite N.mod_small.
    + intros pre post E Hnin. destruct pre as [|p pre]; [constructor|].
      injection E as -> E. exfalso. apply Hnin. now left.
  - destruct (IH Hr H) as (Hin & Hlt & Hb & Hpre). repeat split; [now right|exact Hlt|exact Hb|].
    intros pre post E Hnin. destruct pre as [|p pre]; [constructor|].
    injection E as -> E. constructor; [exact Hge|]. apply (Hpre pre post E).
    intros Hc. apply Hnin. now right.
Qed.

(* ---------- nested types ---------- *)
Section ty_ind2.
  Variable P : ty -> Prop.
  Hypotheses (Hb : P TBool) (Hi : forall w, P (TQint w)) (Hf : forall i f, P (TQfixed i f))
             (Hc : P TQchar) (Ht : forall l, Forall P l -> P (TTuple l)).
  Fixpoint ty_ind2 (t : ty) : P t :=
    match t with
    | TBool => Hb | TQint w => Hi w | TQfixed i f => Hf i f | TQchar => Hc
    | TTuple l => Ht l ((fix go (l : list ty) : Forall P l :=
                           match l with
                           | [] => Forall_nil _
                           | x :: r => Forall_cons x (ty_ind2 x) (go r)
                           end) l)
    end.
End ty_ind2.

Lemma firstn_app_exact {A} (a b : list A) n : length a = n -> firstn n (a ++ b) = a.
Proof. intros <-. rewrite firstn_app, Nat.sub_diag, firstn_all. cbn [firstn]. apply app_nil_r. Qed.

Lemma skipn_app_exact {A} (a b : list A) n : length a = n -> skipn n (a ++ b) = b.
Proof. intros <-. rewrite skipn_app, Nat.sub_diag, skipn_all. reflexivity. Qed.

Definition rt_stmt (t : ty) : Prop :=
  forall v bits, wf_val t v = true -> val_to_bin t v = Some bits ->
    length bits = ty_size t /\ forall rest, interpret t (bits ++ rest) (ty_size t) = Some v.

Lemma roundtrip_list ts : Forall rt_stmt ts ->
  forall vs bits, wf_list wf_val ts vs = true -> zip_bin val_to_bin ts vs = Some bits ->
    length bits = list_sum (map ty_size ts) /\
    forall pre rest, interp_list interpret ty_size (pre ++ bits ++ rest) ts (length pre) = Some vs.
Proof.
  induction 1 as [|t ts Ht Hts IH]; intros vs bits Hwf Hz.
  - destruct vs; [|discriminate]. cbn in Hz. injection Hz as <-. split; [reflexivity|]. reflexivity.
  - destruct vs as [|v vs]; [discriminate|].
    cbn [wf_list] in Hwf. apply andb_true_iff in Hwf as [Hw1 Hw2].
    cbn [zip_bin] in Hz.
    destruct (val_to_bin t v) as [a|] eqn:Ea; [|discriminate].
    destruct (zip_bin val_to_bin ts vs) as [b|] eqn:Eb; [|discriminate].
    injection Hz as <-.
    destruct (Ht v a Hw1 Ea) as [Hla Hia]. destruct (IH vs b Hw2 Eb) as [Hlb Hib].
    split; [rewrite app_length; cbn [map list_sum]; rewrite Hla, Hlb; reflexivity|].
    intros pre rest. cbn [interp_list].
    rewrite skipn_app_exact by reflexivity. rewrite <- app_assoc.
    rewrite firstn_app_exact by exact Hla.
    replace a with (a ++ []) at 1 by apply app_nil_r. rewrite Hia.
    specialize (Hib (pre ++ a) rest). rewrite app_length, Hla in Hib.
    rewrite <- !app_assoc in Hib. rewrite Hib. reflexivity.
Qed.

Theorem interpret_val_to_bin t : rt_stmt t.
Proof.
  induction t as [| w | i f | | l IH] using ty_ind2; intros v bits Hwf Hv.
  - destruct v; try discriminate. injection Hv as <-. split; [reflexivity|]. reflexivity.
  - destruct v; try discriminate. injection Hv as <-. cbn [wf_val] in Hwf.
    apply andb_true_iff in Hwf as [_ Hn]. apply N.ltb_lt in Hn.
    assert (Hlen : length (qint_to_bool w n) = w) by (rewrite qint_to_bool_spec by exact Hn; apply nbits_length).
    split; [exact Hlen|]. intros rest. cbn [interpret ty_size].
    rewrite firstn_app_exact by exact Hlen. now rewrite qint_from_to.
  - destruct v as [| |x| |]; try discriminate. injection Hv as <-. cbn [wf_val] in Hwf.
    apply andb_true_iff in Hwf as [He Hn]. apply Nat.eqb_eq in He. apply N.ltb_lt in Hn.
    destruct x as [n k]. cbn [dexp dnum] in *. subst k.
    split; [apply qfixed_to_bool_length|]. intros rest. cbn [interpret ty_size].
    rewrite firstn_app_exact by apply qfixed_to_bool_length. now rewrite qfixed_from_to.
  - destruct v; try discriminate. injection Hv as <-. cbn [wf_val] in Hwf. apply N.ltb_lt in Hwf.
    assert (Hlen : length (qchar_to_bool c) = 8%nat).
    { unfold qchar_to_bool. rewrite (bin_to_bool_list_py_bin 8 c) by exact Hwf. apply nbits_length. }
    split; [exact Hlen|]. intros rest. cbn [interpret ty_size].
    rewrite firstn_app_exact by exact Hlen. now rewrite qchar_from_to.
  - destruct v as [| | | |vs]; try discriminate. cbn [wf_val] in Hwf. cbn [val_to_bin] in Hv.
    destruct (roundtrip_list l IH vs bits Hwf Hv) as [Hlen Hint].
    split; [exact Hlen|]. intros rest. cbn [interpret].
    specialize (Hint [] rest). cbn [app length] in Hint. now rewrite Hint.
Qed.

(* the measured string: QlassF.decode_output of the reversed encoding is the value *)
Theorem decode_output_encode t v bits :
  wf_val t v = true -> val_to_bin t v = Some bits -> decode_output t (rev bits) = Some v.
Proof.
  intros Hwf Hv. destruct (interpret_val_to_bin t v bits Hwf Hv) as [Hlen Hint].
  unfold decode_output, interpret_as_qtype. cbn [format_outcome].
  rewrite !rev_involutive, rev_length, Hlen, Nat.ltb_irrefl, rev_involutive.
  specialize (Hint []). now rewrite app_nil_r in Hint.
Qed.

(* ---------- encode_input ---------- *)
Lemma encode_input_spec ts vs s :
  encode_input ts vs = Some s -> exists bits, encode_args ts vs = Some bits /\ s = rev bits /\
    forall k, (k < length bits)%nat -> nth (length bits - 1 - k) s false = nth k bits false.
Proof.
  unfold encode_input. destruct (encode_args ts vs) as [bits|]; [|discriminate].
  intros H. injection H as <-. exists bits. repeat split.
  intros k Hk. rewrite rev_nth by lia. f_equal. lia.
Qed.

Lemma encode_args_length ts vs bits :
  wf_list wf_val ts vs = true -> encode_args ts vs = Some bits ->
  length bits = list_sum (map ty_size ts).
Proof.
  intros Hwf Hz. unfold encode_args in Hz.
  assert (HF : Forall rt_stmt ts) by (apply Forall_forall; intros t _; apply interpret_val_to_bin).
  exact (proj1 (roundtrip_list ts HF vs bits Hwf Hz)).
Qed.
