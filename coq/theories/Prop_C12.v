(* Prop_C12.v — "The circuit boolean optimizer returns an equivalent, no larger
   circuit".  Statements about the model of circuit_boolean_optimizer
   (M_Decopt.v, acceptance test with the repair of
   /verif/proposed_fixes/C12_relabelling.diff) for EVERY circuit and EVERY outcome
   of the (unmodelled) simplification and re-synthesis.  harness/c12.py ties the
   model to /repo on every run and decides, with circ_equiv, that each accepted
   replacement acts like the slice it replaces. *)
From Coq Require Import List Bool NArith Arith.
From QV Require Import Bexp BexpTT Circ Compiled M_Decompiler P_Decompiler M_Decopt P_Decopt.
Import ListNotations.

(* replacing gates[s:e] by a list with the same classical action on every basis
   state preserves the classical action of the whole circuit *)
Theorem C12_splice_preserves_classical : forall c s e new,
  s <= e -> acts_alike (slice c s e) new -> acts_alike c (splice c s e new).
Proof. exact splice_preserves_classical. Qed.
Print Assumptions C12_splice_preserves_classical.

(* the same for ANY compositional semantics of gate lists (a monoid U with a
   denotation per gate: unitaries under product, channels, ...) *)
Theorem C12_splice_preserves : forall (U : Type) (one : U) (comp : U -> U -> U),
  (forall a b c, comp a (comp b c) = comp (comp a b) c) -> (forall a, comp one a = a) ->
  forall (den : gate -> U) c s e new,
  s <= e -> den_list U one comp den (slice c s e) = den_list U one comp den new ->
  den_list U one comp den (splice c s e new) = den_list U one comp den c.
Proof. exact splice_preserves_den. Qed.
Print Assumptions C12_splice_preserves.

(* the optimizer as a whole: if every accepted replacement denotes what the slice
   it replaces denotes, the result denotes what the input denotes *)
Theorem C12_optimize_preserves : forall (U : Type) (one : U) (comp : U -> U -> U),
  (forall a b c, comp a (comp b c) = comp (comp a b) c) -> (forall a, comp one a = a) ->
  forall (den : gate -> U) c news,
  replacements_ok U one comp den accept c (combine (sections c) news) ->
  den_list U one comp den (optimize c news) = den_list U one comp den c.
Proof. intros U one comp Ha Hl den c news. exact (optimize_preserves_den U one comp Ha Hl den accept c news). Qed.
Print Assumptions C12_optimize_preserves.

Theorem C12_optimize_preserves_classical : forall c news,
  (forall s e gs r, In ((s, e, gs), r) (combine (sections c) news) -> accept gs r = true ->
     acts_alike (slice c s e) (fst r)) ->
  acts_alike c (optimize c news).
Proof. exact optimize_preserves_classical. Qed.
Print Assumptions C12_optimize_preserves_classical.

(* no larger, whatever the re-synthesis returns *)
Theorem C12_opt_no_larger : forall c news, length (optimize c news) <= length c.
Proof. exact opt_no_larger_thm. Qed.
Print Assumptions C12_opt_no_larger.

(* the decision used per replaced slice (and per all-classical circuit):
   circ_equiv nq c1 c2 = true exactly when both lists are classical, stay on
   qubits < nq, and end in the same state from EVERY entry state *)
Theorem C12_circ_equiv_sound_and_complete : forall nq c1 c2,
  circ_equiv nq c1 c2 = true <->
  qubits_in nq c1 = true /\ qubits_in nq c2 = true /\
  all_classical c1 = true /\ all_classical c2 = true /\ equal_on_all_states c1 c2.
Proof. exact circ_equiv_correct. Qed.
Print Assumptions C12_circ_equiv_sound_and_complete.

Theorem C12_circ_compare_witness : forall nq c1 c2 q,
  circ_compare nq c1 c2 = Some (Some q) -> ~ equal_on_all_states c1 c2.
Proof. exact circ_compare_witness. Qed.
Print Assumptions C12_circ_compare_witness.

(* the acceptance test before the repair: a swap made of three CX is replaced by nothing *)
Theorem C12_optimize_old_refuted :
  exists c news, optimize_old c news = [] /\ circ_equiv 2 c (optimize_old c news) = false /\
                 optimize c news = c.
Proof. exact optimize_old_refuted_thm. Qed.
Print Assumptions C12_optimize_old_refuted.

(* ---- non-vacuity ---- *)
Definition ex12 : circuit :=
  [mkg (K1 BH) [2] None; mkg KBarrier [] None; mkg (K1 BX) [0] None; mkg KCX [0; 1] None;
   mkg (K1 BX) [0] None; mkg KCX [0; 1] None; mkg KBarrier [] None; mkg (K1 BH) [2] None].

Example C12_example_optimize :
  optimize ex12 [([mkg (K1 BX) [1] None], true)] =
  [mkg (K1 BH) [2] None; mkg KBarrier [] None; mkg (K1 BX) [1] None; mkg KBarrier [] None; mkg (K1 BH) [2] None].
Proof. reflexivity. Qed.
Example C12_example_equiv :
  circ_equiv 3 (slice ex12 2 6) [mkg (K1 BX) [1] None] = true.
Proof. vm_compute. reflexivity. Qed.
Example C12_example_rejected_larger :
  optimize ex12 [([mkg (K1 BX) [1] None; mkg (K1 BX) [0] None; mkg (K1 BX) [0] None; mkg (K1 BX) [1] None; mkg (K1 BX) [1] None], true)] = ex12.
Proof. reflexivity. Qed.
Example C12_example_rejected_other_qubit :
  optimize ex12 [([mkg (K1 BX) [2] None], true)] = ex12.
Proof. reflexivity. Qed.
Example C12_example_not_equiv :
  circ_compare 2 cx_triple [] = Some (Some 0).
Proof. vm_compute. reflexivity. Qed.
