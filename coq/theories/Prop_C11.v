(* Prop_C11.v — "Decompiled expressions describe exactly what the gates do".
   Statements about the model of Decompiler.decompile / __exps_of_section
   (M_Decompiler.v, following the code with the repairs of
   /verif/proposed_fixes/C11_*.diff), for EVERY circuit and EVERY entry state.
   The model is tied to /repo by the correspondence run of harness/c11.py, which
   also decides the property on the implementation's own output with sec_check. *)
From Coq Require Import List Bool NArith Arith.
From QV Require Import Bexp BexpTT Circ Compiled M_Decompiler P_Decompiler.
Import ListNotations.

(* expressions: for every gate list on which __exps_of_section returns and every
   entry state f (BSym q = value of qubit q at entry): the gates are classical,
   each listed expression evaluates to the exit value of its qubit, and every
   qubit without an expression keeps its value *)
Theorem C11_exps_sound : forall gs L, exps_of_section gs = Ok L ->
  forall f : nat -> bool,
  exists f', fsim f gs = Some f' /\
    (forall q e, In (q, e) L -> beval f e = f' q) /\
    (forall q, (forall e, ~ In (q, e) L) -> f' q = f q).
Proof. exact exps_sound_thm. Qed.
Print Assumptions C11_exps_sound.

(* a qubit is listed at most once *)
Theorem C11_exps_keys_distinct : forall gs L, exps_of_section gs = Ok L -> NoDup (keys L).
Proof. exact exps_keys_nodup. Qed.
Print Assumptions C11_exps_keys_distinct.

(* decompile returns (never raises) on every circuit whose classical gates have
   the arity gates.apply enforces: the theorems above are about every such circuit *)
Theorem C11_decompile_total : forall c, Forall zb_wf c -> exists r, decompile c = Ok r.
Proof. exact decompile_total_thm. Qed.
Print Assumptions C11_decompile_total.

(* sections: (s, e, gs) is reported iff [s, e) is a maximal run of classical
   gates (first and last gate classical, only classical gates and barriers
   inside, not extensible on either side even across barriers) and gs is the
   run without its barriers *)
Theorem C11_sections_exact : forall c s e gs,
  In (s, e, gs) (sections c) <-> maximal_run c s e /\ gs = filter is_zb (slice c s e).
Proof. exact sections_exact_thm. Qed.
Print Assumptions C11_sections_exact.

(* reported left to right, pairwise disjoint *)
Theorem C11_sections_sorted : forall c, sorted_from 0 (sections c).
Proof. exact sections_sorted. Qed.
Print Assumptions C11_sections_sorted.

(* the per-section decision used on the implementation's output: sec_check
   answers Some 0 exactly when, on each of the 2^nq basis states, the gates are
   classical and every qubit's exit value is the value of its expression
   (its own entry value when it has none) *)
Theorem C11_section_check_sound_and_complete : forall nq gs ex,
  sec_check nq gs ex = Some 0%N <-> all_classical gs = true /\ sec_holds nq gs ex.
Proof. exact sec_check_correct. Qed.
Print Assumptions C11_section_check_sound_and_complete.

(* the code before the repair of the end index: refuted, and exact under its guard *)
Theorem C11_sections_exact_old_refuted :
  exists c s e gs, In (s, e, gs) (sections_old c) /\ ~ maximal_run c s e.
Proof. exact sections_old_refuted_thm. Qed.
Print Assumptions C11_sections_exact_old_refuted.

Theorem C11_sections_old_agree_iff_guard : forall c, sections_old c = sections c <-> old_guard c = true.
Proof. exact sections_old_iff_guard. Qed.
Print Assumptions C11_sections_old_agree_iff_guard.

Theorem C11_sections_exact_old_partial : forall c, old_guard c = true -> forall s e gs,
  In (s, e, gs) (sections_old c) <-> maximal_run c s e /\ gs = filter is_zb (slice c s e).
Proof. exact sections_old_exact_partial. Qed.
Print Assumptions C11_sections_exact_old_partial.

Theorem C11_identity_gate_old_refuted :
  exists c, decompile_old c = Err 1%N /\ exists r, decompile c = Ok r.
Proof. exact identity_old_refuted_thm. Qed.
Print Assumptions C11_identity_gate_old_refuted.

(* ---- non-vacuity ---- *)
Definition ex_circ : circuit :=
  [mkg KBarrier [] None; mkg (K1 BX) [0] None; mkg KBarrier [] None; mkg KCX [0; 1] None;
   mkg KBarrier [] None; mkg KBarrier [] None; mkg (K1 BH) [2] None; mkg KCCX [0; 1; 2] None].

Example C11_example_sections :
  sections ex_circ = [(1, 4, [mkg (K1 BX) [0] None; mkg KCX [0; 1] None]); (7, 8, [mkg KCCX [0; 1; 2] None])].
Proof. reflexivity. Qed.
Example C11_example_old_differs : sections_old ex_circ <> sections ex_circ /\ old_guard ex_circ = false.
Proof. split; [discriminate|reflexivity]. Qed.
Example C11_example_exps :
  exps_of_section [mkg (K1 BX) [0] None; mkg KCX [0; 1] None] =
  Ok [(0, BNot (BSym 0)); (1, BXor [BNot (BSym 0); BSym 1])].
Proof. reflexivity. Qed.
Example C11_example_check_pass :
  sec_check 2 [mkg (K1 BX) [0] None; mkg KCX [0; 1] None] [(0, BNot (BSym 0)); (1, BXor [BSym 1; BNot (BSym 0)])] = Some 0%N.
Proof. vm_compute. reflexivity. Qed.
Example C11_example_check_fail :
  exists d, sec_check 2 [mkg (K1 BX) [0] None; mkg KCX [0; 1] None] [(0, BNot (BSym 0))] = Some d /\ d <> 0%N.
Proof. eexists. split; [vm_compute; reflexivity|discriminate]. Qed.
