(* Prop_C01_texp.v — property C01, translator layer: the boolean expressions that
   translate_expression / translate_statement / translate_ast (as modelled in
   M_Texp.v, on top of the bit-vector methods of M_Types.v) derive for a
   NORMALISED function denote, under EVERY assignment of the symbols, the value the
   typed reference evaluator of the same language computes — for every expression
   of the language, every environment, all widths.  Statements only; proofs are in
   P_Texp.v.

   Vocabulary (definitions in M_Texp.v / P_Texp.v):
     pexp, pstmt           the normalised language (what qlasskit.ast2ast produces)
     trans_exp num G e     the translator: Some (type, value tree) or None (= raises)
     eval_exp V e          the reference evaluator over values (bool | unsigned integer of a
                           width | fixed point as a scaled integer | char | tuple); None = the
                           documented semantics assigns no meaning (operands of different kinds, ...)
     den rho (t, tree)     decode t (the bits of the tree under the assignment rho)
     env_ok num rho G V    every name bound in G has a value in V, and its bit symbols evaluate
                           under rho to the bits of that value
     env_canon G           every binding carries the bit names its type gives (translate_argument)
     env_good G            no bound type has a sized component of fewer than 2 bits (ty_good; every
                           shipped sized type has at least 2 bits; a one-bit sized NAME would
                           evaluate to a bare Symbol).  Tuples of any length, the empty one
                           included, are fine (fixes 861badb, 4042692, fccfe9a)
     wf_res r              the translated value is shaped as its type: a bool is a bare expression, a
                           sized value a flat list
     stmt_class s          a SYNTACTIC class of statements: the target is not read by the right-hand
                           side (fresh_in), or is read only as the unchanged branch of if-expressions
                           whose tests and other branches do not read it (selfite: `X if c else a`,
                           what an `if` statement becomes); Return: `_ret` is not read
     stmt_guard2, body_guard2   in the class, or seq_ok evaluated on the program (no definition of the
                           statement reads a symbol an earlier definition of it assigns).  For a body
                           entirely in the class no per-program condition is left
     forall a b, num a = num b -> a = b     the numbering of bit names is injective (enc is)
   A result None of the model is "the Python code raises". *)
From Coq Require Import List Bool NArith ZArith Arith.
From QV Require Import Bits Bexp BexpTT M_Codec Generated M_Types P_Types M_Texp P_Texp.
Import ListNotations.
Local Open Scope N_scope.

(* ---------------- expressions: ALL constructors ---------------- *)
Theorem C01x_trans_exp_sound : forall num rho G V e r v,
  env_ok num rho G V -> env_canon G ->
  trans_exp num G e = Some r -> eval_exp V e = Some v -> den rho r = Some v.
Proof. exact trans_exp_sound. Qed.
Print Assumptions C01x_trans_exp_sound.

(* the translated type is the type of the value, the value is shaped as its type, and its type
   has no one-bit sized component *)
Theorem C01x_trans_exp_type : forall num rho G V e r v,
  env_ok num rho G V -> env_canon G -> env_good G ->
  trans_exp num G e = Some r -> eval_exp V e = Some v ->
  type_of v = fst r /\ length (flat (snd r)) = ty_size (fst r) /\ wf_res r /\ ty_good (fst r) = true.
Proof. exact trans_exp_type. Qed.
Print Assumptions C01x_trans_exp_type.

(* a: Qint[2] = 3, b: Qint[4] = 9, c: bool; ((a if c else b) + 1) * 2 > b  and  (a, b)[...] *)
Definition exG : env := arg_env [(1%nat, TQint 2); (2%nat, TQint 4); (3%nat, TBool)].
Definition exV : venv := [(1%nat, VI 2 3); (2%nat, VI 4 9); (3%nat, VB true)].
Definition exnum : sname -> nat :=
  fun s => match s with [1; i] => i | [2; i] => 2 + i | [3] => 6 | _ => 99 end%nat.
Definition exrho : nat -> bool := fun k => N.testbit (3 + 4 * 9 + 64) (N.of_nat k).
Definition exe : pexp :=
  ECmp CoGt (EBin AoMul (EBin AoAdd (EIf (EName 3%nat) (EName 1%nat) (EName 2%nat)) (EConst (CInt 1))) (EConst (CInt 2)))
            (EName 2%nat).

Example C01x_trans_exp_ex :
  env_ok exnum exrho exG exV /\ env_canon exG
  /\ (exists r, trans_exp exnum exG exe = Some r /\ fst r = TBool)
  /\ eval_exp exV exe = Some (VB false)          (* ((3 widened to 4 bits) + 1) * 2 = 8 at 8 bits; 8 > 9 is false *)
  /\ option_map (den exrho) (trans_exp exnum exG exe) = Some (Some (VB false)).
Proof.
  split; [|split; [apply arg_env_canon|]].
  - apply (arg_env_ok exnum exrho [(1%nat, TQint 2); (2%nat, TQint 4); (3%nat, TBool)] [VI 2 3; VI 4 9; VB true]).
    repeat constructor.
  - repeat split; try (vm_compute; reflexivity). eexists. split; vm_compute; reflexivity.
Qed.

(* accepted expressions of the bool / integer fragment (names, and / or / not / ~, if-expressions,
   constants, comparisons, + - * & | ^, shifts by an integer constant; every bound name a bool or a
   Qint) HAVE a value, and denote it: soundness without the hypothesis on the evaluator *)
Theorem C01x_trans_exp_total : forall num rho G V e r,
  env_ok num rho G V -> env_canon G -> ib_env G -> frag e = true -> trans_exp num G e = Some r ->
  exists v, eval_exp V e = Some v /\ den rho r = Some v.
Proof. exact trans_exp_total. Qed.
Print Assumptions C01x_trans_exp_total.

Example C01x_trans_exp_total_ex : ib_env exG /\ frag exe = true.
Proof. split; [apply arg_env_ib|]; reflexivity. Qed.

(* ---------------- statements ---------------- *)
(* ONE statement.  Hypotheses: an injective numbering; the environment invariants; a declared
   return type without one-bit sized components; stmt_guard2 = in the syntactic class, or seq_ok *)
Theorem C01x_trans_stmt_sound : forall num, (forall a b, num a = num b -> a = b) ->
  forall rho G V rt s ds G' V',
  env_ok num rho G V -> env_canon G -> env_good G -> ty_good rt = true ->
  stmt_guard2 num G rt s = true ->
  trans_stmt num G rt s = Some (ds, G') -> eval_stmt V rt s = Some V' ->
  env_ok num (run_defs rho (numbered num ds)) G' V' /\ env_canon G' /\ env_good G'.
Proof. exact trans_stmt_sound2. Qed.
Print Assumptions C01x_trans_stmt_sound.

(* the names an Assign / Return binds are the names translate_argument gives to the type, for EVERY
   value with a meaning: no side condition (one-element and empty tuples included) *)
Theorem C01x_binding_names : forall rho x r v, den rho r = Some v -> wf_res r ->
  map fst (decompose [x] (snd (regroup_value r))) = arg_names [x] (fst r).
Proof. exact regroup_canon. Qed.
Print Assumptions C01x_binding_names.

(* bit names are distinct and carry their base name: with an injective numbering the definitions of
   a statement assign distinct symbols and clobber no other binding (were per-program guards) *)
Theorem C01x_names_distinct : forall t base,
  NoDup (arg_names base t) /\ forall n, In n (arg_names base t) -> exists suf, n = base ++ suf.
Proof. exact (fun t base => conj (arg_names_nodup t base) (arg_names_prefix t base)). Qed.
Print Assumptions C01x_names_distinct.

(* the Return coercion to the declared type: zero-extension / low bits for integers *)
Theorem C01x_ret_coerce_sound : forall rho rt r v r' v',
  den rho r = Some v -> ret_coerce rt r = Some r' -> coerce_ret rt v = Some v' ->
  den rho r' = Some v' /\ fst r' = rt.
Proof. exact ret_coerce_sound. Qed.
Print Assumptions C01x_ret_coerce_sound.

Theorem C01x_trans_body_sound : forall num, (forall a b, num a = num b -> a = b) ->
  forall body rho G V rt ds G' V',
  env_ok num rho G V -> env_canon G -> env_good G -> ty_good rt = true ->
  body_guard2 num G rt body = true ->
  trans_body num G rt body = Some (ds, G') -> eval_body V rt body = Some V' ->
  env_ok num (run_defs rho (numbered num ds)) G' V' /\ env_canon G' /\ env_good G'.
Proof. exact trans_body_sound2. Qed.
Print Assumptions C01x_trans_body_sound.

(* a definition list that passes seq_ok / nodupb is evaluated in order as if simultaneously *)
Theorem C01x_run_defs_seq : forall ds rho, seq_ok ds = true -> nodupb (map fst ds) = true ->
  (forall j, ~ In j (map fst ds) -> run_defs rho ds j = rho j)
  /\ Forall (fun d => run_defs rho ds (fst d) = beval rho (snd d)) ds.
Proof. exact run_defs_seq. Qed.
Print Assumptions C01x_run_defs_seq.

(* ---------------- a whole function: the list translate_ast returns ---------------- *)
Theorem C01x_trans_fun_sound : forall num rho args rt body vs lf v,
  (forall a b, num a = num b -> a = b) ->
  trans_fun num args rt body = Some lf -> eval_fun args rt body vs = Some v ->
  wf_args args = true -> ty_good rt = true -> wf_body body = true ->
  body_guard2 num (arg_env args) rt body = true ->
  args_encoded num rho args vs ->
  lf_ret lf = (rt, arg_names [ret_id] rt) /\
  decode rt (map (fun s => run_defs rho (numbered num (lf_defs lf)) (num s)) (arg_names [ret_id] rt)) = Some v.
Proof. exact trans_fun_sound. Qed.
Print Assumptions C01x_trans_fun_sound.

(* every statement in the syntactic class: NO per-program condition at all *)
Theorem C01x_trans_fun_sound_class : forall num rho args rt body vs lf v,
  (forall a b, num a = num b -> a = b) ->
  trans_fun num args rt body = Some lf -> eval_fun args rt body vs = Some v ->
  wf_args args = true -> ty_good rt = true -> wf_body body = true ->
  forallb stmt_class body = true ->
  args_encoded num rho args vs ->
  lf_ret lf = (rt, arg_names [ret_id] rt) /\
  decode rt (map (fun s => run_defs rho (numbered num (lf_defs lf)) (num s)) (arg_names [ret_id] rt)) = Some v.
Proof. exact trans_fun_sound_class. Qed.
Print Assumptions C01x_trans_fun_sound_class.

(* the class implies the side condition; so does seq_ok on every statement *)
Theorem C01x_class_guard : forall num body G rt,
  (forallb stmt_class body = true -> body_guard2 num G rt body = true)
  /\ (body_guard num G rt body = true -> body_guard2 num G rt body = true).
Proof. exact (fun num body G rt => conj (body_class_guard2 num body G rt) (body_guard_guard2 num body G rt)). Qed.
Print Assumptions C01x_class_guard.

(* an injective numbering exists *)
Theorem C01x_enc_injective : forall a b, enc a = enc b -> a = b.
Proof. exact enc_inj. Qed.
Print Assumptions C01x_enc_injective.

(* def f(a: Qint[2], b: Qint[4], c: bool) -> Qint[4]:
       d = a                      ( 1 )
       d = d + 1 if c else d      ( ast2ast: __d = ...; d = __d if c else d )
       t = (d, c)
       return t[0] * 3 + b        ( Qint8 cropped to Qint4 ) *)
Definition exargs : list (ident * ty) := [(1%nat, TQint 2); (2%nat, TQint 4); (3%nat, TBool)].
Definition exbody : list pstmt :=
  [SAssign 4%nat (EName 1%nat);
   SAssign 5%nat (EIf (EName 3%nat) (EBin AoAdd (EName 4%nat) (EConst (CInt 1))) (EName 4%nat));
   SAssign 4%nat (EIf (EName 3%nat) (EName 5%nat) (EName 4%nat));
   SAssign 6%nat (ETuple [EName 4%nat; EName 3%nat]);
   SReturn (EBin AoAdd (EBin AoMul (ESub 6%nat [0%nat]) (EConst (CInt 3))) (EName 2%nat))].
(* a = 3, b = 9, c = True under the injective numbering enc *)
Definition exrho2 : nat -> bool := rho_of [[1; 0]; [1; 1]; [2; 0]; [2; 3]; [3]]%nat.

Example C01x_trans_fun_ex :
  wf_args exargs = true /\ ty_good (TQint 4) = true /\ wf_body exbody = true
  /\ forallb stmt_class exbody = true
  /\ args_encoded enc exrho2 exargs [VI 2 3; VI 4 9; VB true]
  /\ (exists lf, trans_fun enc exargs (TQint 4) exbody = Some lf /\ length (lf_defs lf) = 13%nat)
  /\ eval_fun exargs (TQint 4) exbody [VI 2 3; VI 4 9; VB true] = Some (VI 4 9).   (* (3+1 mod 4) * 3 + 9 *)
Proof.
  repeat split; try (vm_compute; reflexivity).
  - repeat constructor.
  - eexists. split; vm_compute; reflexivity.
Qed.

(* ---------------- rejection: None = the code raises ---------------- *)
Theorem C01x_rejects_constants : forall num G,
  (forall z, (z < 0)%Z -> trans_exp num G (EConst (CInt z)) = None)
  /\ (forall x, trans_exp num G (EConst (CFloat true x)) = None)
  /\ (forall z, (65536 <= z)%Z -> trans_exp num G (EConst (CInt z)) = None).
Proof. exact rejects_constants. Qed.
Print Assumptions C01x_rejects_constants.

Theorem C01x_rejects_names : forall num (G : env) x,
  (lookup G x = None -> forall p, trans_exp num G (EName x) = None /\ trans_exp num G (ESub x p) = None)
  /\ (forall w bv i q, lookup G x = Some (TQint w, bv) -> (w <= i)%nat -> trans_exp num G (ESub x (i :: q)) = None).
Proof. exact rejects_names. Qed.
Print Assumptions C01x_rejects_names.

Theorem C01x_rejects_operators :
  (forall op a b, op <> CoEq -> op <> CoNe -> trans_cmp op (TBool, a) (TBool, b) = None)
  /\ (forall r, is_qtype (fst r) = true -> trans_un UoNot r = None)
  /\ (forall op sh l r,
        (is_qint (fst l) && is_qfixed (fst r)) || (is_qfixed (fst l) && is_qint (fst r)) = true ->
        op <> AoMul -> trans_bin op sh l r = None)
  /\ (forall op l r, op = AoShl \/ op = AoShr -> trans_bin op None l r = None)
  /\ (forall rt r, ty_eq (fst r) rt = false ->
        (is_qtype (fst r) && is_qtype rt = false \/ bit_size (fst r) = bit_size rt) -> ret_coerce rt r = None)
  /\ (forall num G rt, trans_exp num G ERaise = None /\ trans_stmt num G rt SRaise = None).
Proof. exact rejects_operators. Qed.
Print Assumptions C01x_rejects_operators.

(* ---------------- the two former counterexamples, now theorems ---------------- *)
(* a subscript may select ANY element, a whole tuple-typed one included (`a[0]` of
   a: Tuple[Tuple[bool, Qint[2]], bool]): no side condition on subscripts is left *)
Theorem C01x_subscript_of_tuple_sound : forall num rho G V x p r v,
  env_ok num rho G V -> env_canon G ->
  trans_exp num G (ESub x p) = Some r -> eval_exp V (ESub x p) = Some v ->
  den rho r = Some v /\ type_of v = fst r.
Proof. exact subscript_of_tuple_sound. Qed.
Print Assumptions C01x_subscript_of_tuple_sound.

(* ... an EMPTY one included since fccfe9a: `u[0]` of u: Tuple[Tuple[()], bool] has no bits *)
Example C01x_subscript_of_empty_ex :
  let args := [(1%nat, TTuple [TTuple []; TBool])] in
  env_ok enc (fun _ => true) (arg_env args) [(1%nat, VT [VT []; VB true])] /\ env_canon (arg_env args)
  /\ trans_exp enc (arg_env args) (ESub 1%nat [0%nat]) = Some (TTuple [], Nd [])
  /\ eval_exp [(1%nat, VT [VT []; VB true])] (ESub 1%nat [0%nat]) = Some (VT [])
  /\ den (fun _ => true) (TTuple [], Nd []) = Some (VT []).
Proof. exact subscript_of_empty_ex. Qed.

Example C01x_subscript_of_tuple_ex :
  env_ok ex_sub_num ex_sub_rho ex_sub_G ex_sub_V /\ env_canon ex_sub_G
  /\ eval_exp ex_sub_V (ESub 1%nat [0%nat]) = Some (VT [VB true; VI 2 1])
  /\ option_map (den ex_sub_rho) (trans_exp ex_sub_num ex_sub_G (ESub 1%nat [0%nat])) = Some (Some (VT [VB true; VI 2 1])).
Proof.
  destruct ex_sub_env as (A & B). repeat split; try assumption; vm_compute; reflexivity.
Qed.

(* `d = a; return d[1]` with a: Tuple[Qint[2], bool] (returned bit 1 of a[0] before the fix): the
   copy is named d.0.0, d.0.1, d.1 and the function returns a[1] for EVERY argument value *)
Theorem C01x_tuple_copy_sound : forall rho vs v,
  args_encoded enc rho ex_copy_args vs -> eval_fun ex_copy_args TBool ex_copy_body vs = Some v ->
  exists lf, trans_fun enc ex_copy_args TBool ex_copy_body = Some lf /\
    map fst (lf_defs lf) = [[2; 0; 0]; [2; 0; 1]; [2; 1]; [0]]%nat /\
    decode TBool (map (fun s => run_defs rho (numbered enc (lf_defs lf)) (enc s))
                      (arg_names [ret_id] TBool)) = Some v.
Proof. exact tuple_copy_sound. Qed.
Print Assumptions C01x_tuple_copy_sound.

Example C01x_tuple_copy_ex :
  args_encoded enc (rho_of [[1; 0; 1]]%nat) ex_copy_args [VT [VI 2 2; VB false]]
  /\ eval_fun ex_copy_args TBool ex_copy_body [VT [VI 2 2; VB false]] = Some (VB false).
Proof. split; [constructor; [vm_compute; reflexivity|constructor]|vm_compute; reflexivity]. Qed.

(* outside the syntactic class the side condition seq_ok is needed: on the
   UN-normalised `a = a + 1; return a` (a: Qint[2]) it emits a.0 := ~a.0; a.1 := a.0 ^ a.1 and the
   list run in order gives 0 for a = 1.  (ast2ast never hands this over: it goes through `__a`.) *)
Theorem C01x_seq_ok_needed_refuted :
  exists rho vs lf v,
    trans_fun enc ex_self_args (TQint 2) ex_self_body = Some lf /\
    eval_fun ex_self_args (TQint 2) ex_self_body vs = Some v /\
    wf_args ex_self_args = true /\ ty_good (TQint 2) = true /\ wf_body ex_self_body = true /\
    args_encoded enc rho ex_self_args vs /\
    body_guard2 enc (arg_env ex_self_args) (TQint 2) ex_self_body = false /\
    decode (TQint 2) (map (fun s => run_defs rho (numbered enc (lf_defs lf)) (enc s)) (arg_names [ret_id] (TQint 2)))
      <> Some v.
Proof. exact seq_ok_needed. Qed.
Print Assumptions C01x_seq_ok_needed_refuted.

(* "every accepted program has a meaning" is false: Qint ^ Qchar; `return 'a'` declared Qint[2] *)
Theorem C01x_accepted_without_meaning_refuted :
  (exists num rho G V e r, env_ok num rho G V /\ env_canon G /\
     trans_exp num G e = Some r /\ eval_exp V e = None)
  /\ (exists num args rt body lf, trans_fun num args rt body = Some lf /\
        forall vs, eval_fun args rt body vs = None).
Proof. exact accepted_without_meaning. Qed.
Print Assumptions C01x_accepted_without_meaning_refuted.
