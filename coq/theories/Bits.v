(* Bits.v — little-endian bit lists and their numeric value. *)
From Coq Require Import List Bool NArith Arith Lia.
Import ListNotations.
Local Open Scope N_scope.

(* value of a little-endian list of booleans *)
Fixpoint bits_val (l : list bool) : N :=
  match l with
  | [] => 0
  | b :: r => N.b2n b + 2 * bits_val r
  end.

(* the [w] low bits of [n], little-endian *)
Fixpoint nbits (w : nat) (n : N) : list bool :=
  match w with
  | O => []
  | S w' => N.odd n :: nbits w' (N.div2 n)
  end.

Lemma nbits_length w n : length (nbits w n) = w.
Proof. revert n; induction w as [|w IH]; intros n; cbn [nbits length]; [reflexivity|now rewrite IH]. Qed.

Lemma bits_val_bound l : bits_val l < 2 ^ N.of_nat (length l).
Proof.
  induction l as [|b r IH]; cbn [bits_val length].
  - cbn. lia.
  - rewrite Nat2N.inj_succ, N.pow_succ_r'. destruct b; cbn [N.b2n]; lia.
Qed.

Lemma nbits_bits_val l : nbits (length l) (bits_val l) = l.
Proof.
  induction l as [|b r IH]; cbn [bits_val length nbits]; [reflexivity|].
  f_equal.
  - rewrite N.odd_add_mul_2. now destruct b.
  - rewrite N.div2_div. replace (N.b2n b + 2 * bits_val r) with (bits_val r * 2 + N.b2n b) by lia.
    rewrite N.div_add_l by lia. rewrite N.div_small by (destruct b; cbn; lia).
    now rewrite N.add_0_r.
Qed.

Lemma bits_val_nbits w n : bits_val (nbits w n) = n mod 2 ^ N.of_nat w.
Proof.
  revert n; induction w as [|w IH]; intros n; cbn [nbits bits_val].
  - cbn. now rewrite N.mod_1_r.
  - rewrite IH, Nat2N.inj_succ, N.pow_succ_r', N.div2_div.
    assert (H2 : 2 ^ N.of_nat w <> 0) by (apply N.pow_nonzero; lia).
    rewrite N.mod_mul_r by lia.
    rewrite <- N.bit0_mod, N.bit0_odd. reflexivity.
Qed.

Lemma bits_val_nbits_small w n : n < 2 ^ N.of_nat w -> bits_val (nbits w n) = n.
Proof. intros H. rewrite bits_val_nbits. now apply N.mod_small. Qed.

Lemma nbits_testbit w n k : (k < w)%nat -> nth k (nbits w n) false = N.testbit n (N.of_nat k).
Proof.
  revert n k; induction w as [|w IH]; intros n k Hk; [lia|].
  cbn [nbits]. destruct k as [|k]; cbn [nth].
  - now rewrite N.bit0_odd.
  - rewrite IH by lia. rewrite Nat2N.inj_succ, N.div2_spec, N.shiftr_spec by lia.
    f_equal. lia.
Qed.

Lemma bits_val_app a b : bits_val (a ++ b) = bits_val a + 2 ^ N.of_nat (length a) * bits_val b.
Proof.
  induction a as [|x a IH]; cbn [app bits_val length].
  - change (N.of_nat 0) with 0. rewrite N.pow_0_r. lia.
  - rewrite IH, Nat2N.inj_succ, N.pow_succ_r'. lia.
Qed.

Lemma bits_val_repeat_false k : bits_val (repeat false k) = 0.
Proof. induction k as [|k IH]; cbn [repeat bits_val N.b2n]; [reflexivity|rewrite IH; reflexivity]. Qed.

Lemma bits_val_inj a b : length a = length b -> bits_val a = bits_val b -> a = b.
Proof.
  intros Hl Hv. rewrite <- (nbits_bits_val a), <- (nbits_bits_val b). now rewrite Hl, Hv.
Qed.

(* big-endian (most significant first) digits of n, as Python's bin(n)[2:] *)
Definition bin_digits (n : N) : list bool :=
  match n with
  | 0 => [false]
  | _ => rev (nbits (N.to_nat (N.size n)) n)
  end.
