(* Chk_Decompiler.v — what the C11 harness evaluates on each observed run of
   Decompiler().decompile(qc):
   - the model (M_Decompiler) is run on the same gate list and its sections
     (index ranges, gate lists) are compared EXACTLY with the implementation's;
   - the implementation's expressions are compared SEMANTICALLY (truth tables
     over all entry states of the circuit's qubits) with the model's;
   - the property itself is decided on the implementation's output by the
     verified [sec_check]: on every basis state the expressions give the exit
     values of the section's gates, qubits without an expression are unchanged. *)
From Coq Require Import List Bool NArith ZArith Arith.
From QV Require Import Bexp BexpTT Circ Compiled M_Decompiler P_Decompiler.
Import ListNotations.
Local Open Scope N_scope.

(* ---- decidable equality of gates ---- *)
Definition base_eqb (a b : base) : bool :=
  match a, b with
  | BI, BI | BX, BX | BY, BY | BZ, BZ | BH, BH | BS, BS | BT, BT | BP, BP | BSwap, BSwap => true
  | _, _ => false
  end.
Definition gk_eqb (a b : gk) : bool :=
  match a, b with
  | K1 x, K1 y => base_eqb x y
  | KCX, KCX | KCZ, KCZ | KCP, KCP | KCCX, KCCX | KBarrier, KBarrier | KNop, KNop => true
  | KMCX n, KMCX m => Nat.eqb n m
  | KMCtrl x n, KMCtrl y m => base_eqb x y && Nat.eqb n m
  | _, _ => false
  end.
Definition par_eqb (a b : option (Z * N)) : bool :=
  match a, b with
  | None, None => true
  | Some (z1, n1), Some (z2, n2) => Z.eqb z1 z2 && N.eqb n1 n2
  | _, _ => false
  end.
Fixpoint list_eqb {A} (eqb : A -> A -> bool) (l1 l2 : list A) : bool :=
  match l1, l2 with
  | [], [] => true
  | x :: r1, y :: r2 => eqb x y && list_eqb eqb r1 r2
  | _, _ => false
  end.
Definition gate_eqb (g1 g2 : gate) : bool :=
  gk_eqb (gkind g1) (gkind g2) && list_eqb Nat.eqb (gqs g1) (gqs g2) && par_eqb (gpar g1) (gpar g2).
Definition circ_eqb : circuit -> circuit -> bool := list_eqb gate_eqb.
Definition sec_eqb (a b : sec) : bool :=
  match a, b with (s1, e1, g1), (s2, e2, g2) => Nat.eqb s1 s2 && Nat.eqb e1 e2 && circ_eqb g1 g2 end.

Fixpoint subseq (a b : list nat) : bool :=
  match a, b with
  | [], _ => true
  | _, [] => false
  | x :: a', y :: b' => if Nat.eqb x y then subseq a' b' else subseq a b'
  end.
Fixpoint nodupb (l : list nat) : bool :=
  match l with [] => true | x :: r => negb (existsb (Nat.eqb x) r) && nodupb r end.

Definition qubits_below (nq : nat) (c : circuit) : bool :=
  forallb (fun g => forallb (fun q => Nat.ltb q nq) (gqs g)) c.

(* one observed section of the implementation *)
Definition isec := (nat * nat * circuit * emap)%type.

Record dcase := mkdcase {
  d_id : N; d_nq : nat; d_circ : circuit;
  d_impl : option (list isec) }.      (* None: decompile raised *)

(* semantic equality of the value of every qubit, as functions of the entry state *)
Definition exps_diff (nq : nat) (a b : emap) : option nat :=
  let m := tt_mask nq in let env := tenv (input_tables nq) in
  find (fun q => negb (tt_diff m (tt_eval m env (egetd a q)) (tt_eval m env (egetd b q)) =? 0)) (seq 0 nq).

Definition wit (r : option N) : N := match r with Some d => N.log2 d | None => 0 end.

(* failure records [id; code; section number; witness] *)
Definition chk_isec (id : N) (nq : nat) (k : N) (impl : isec) (mex : emap) : list N :=
  match impl with
  | (s, e, gs, ex) =>
      (if forallb (fun qe => Nat.ltb (fst qe) nq && syms_below nq (snd qe)) ex && nodupb (keys ex) && qubits_below nq gs
       then [] else [id; 6; k; 0]) ++
      (match exps_diff nq ex mex with None => [] | Some q => [id; 3; k; N.of_nat q] end) ++
      (if subseq (keys ex) (keys mex) then [] else [id; 4; k; 0]) ++
      (match sec_check nq gs ex with Some 0 => [] | r => [id; 5; k; wit r] end)
  end.

Fixpoint chk_isecs (id : N) (nq : nat) (k : N) (impl : list isec) (model : list dsec) : list N :=
  match impl, model with
  | i :: ir, (_, _, _, mex) :: mr => chk_isec id nq k i mex ++ chk_isecs id nq (k + 1) ir mr
  | _, _ => []
  end.

Definition chk_dcase (d : dcase) : list N :=
  let id := d_id d in
  match decompile (d_circ d), d_impl d with
  | Err _, None => []
  | Err c, Some _ => [id; 1; 0; c]
  | Ok _, None => [id; 1; 1; 0]
  | Ok model, Some impl =>
      if list_eqb sec_eqb (map (fun x : isec => match x with (s, e, gs, _) => (s, e, gs) end) impl)
                          (map (fun x : dsec => match x with (s, e, gs, _) => (s, e, gs) end) model)
      then chk_isecs id (d_nq d) 0 impl model
      else [id; 2; N.of_nat (length impl); N.of_nat (length model)]
  end.

Definition chk_dcases (l : list dcase) : list N := flat_map chk_dcase l.

(* would the code before the repairs have produced this observation?  (used only
   to label a mismatch in the report, never to accept one) *)
Definition old_matches (d : dcase) : bool :=
  match decompile_old (d_circ d), d_impl d with
  | Err _, None => true
  | Ok model, Some impl =>
      list_eqb sec_eqb (map (fun x : isec => match x with (s, e, gs, _) => (s, e, gs) end) impl)
                       (map (fun x : dsec => match x with (s, e, gs, _) => (s, e, gs) end) model)
  | _, _ => false
  end.
