(* P_Algo.v — theorems about the algorithm circuits of M_Algo.v under the exact
   amplitude semantics of Amp.v, for EVERY n and EVERY black box that is a clean
   xor-oracle (the conclusion c06_holds of Compiled.v, which the harness
   establishes per program with the verified checker c06_check).

   A. the X-family part of a circuit acts on basis indices (actf / actr), and
      this action is the classical simulation fsim of Circ.v
   B. reference amplitude semantics of such a circuit: psi' i = psi (actr c i)
   C. KEY LEMMA oracle_action: a clean xor-oracle circuit for f acts on the
      reference state exactly like the abstract map (x, y, 0) |-> (x, y xor f x, 0)
   D. Deutsch-Jozsa / Bernstein-Vazirani amplitudes (every n, every f)
   E. Simon (every n, every two-to-one F)
   F. Grover: the circuit's action factors through the abstract oracle map
      (grover_sim, grover_depends_only_on_f); the diffuser as coded is a reflection
   G. probabilities read off the evaluator's list are sums of squared reference amplitudes
   H. the theorems restated with the harness's decisions (c06_check = Some 0 ...) as hypotheses
   I. Grover: the abstract state lives on 8 classes (f x, `_ret`, phase): integer recurrence
   J. Grover: the recurrence evaluated for 2..6 search qubits, 1 <= M <= N/4, default
      iteration count: every solution beats every non-solution, total > 1/2 (grover_amplifies)
   K. Simon: the black box's F in terms of the return expressions (from C02 + C03) *)
From Coq Require Import List Bool NArith ZArith Arith Lia.
From QV Require Import Bexp BexpTT Circ Compiled Amp WH M_Algo.
Import ListNotations.
Local Open Scope N_scope.

(* ================================================================== *)
(* A. classical action on indices                                      *)
(* ================================================================== *)
Definition bitsf (i : N) : nat -> bool := fun q => N.testbit i (N.of_nat q).

(* is_x / xonly (every gate is an X-family gate or an identity, on distinct qubits below nq) are defined in Amp.v *)

(* forward action (first gate first) and the action of the reversed list *)
Fixpoint actf (nq : nat) (c : circuit) (i : N) : N :=
  match c with
  | [] => i
  | g :: r => match aact_of nq g with AX cs t => actf nq r (xperm cs t i) | _ => actf nq r i end
  end.
Fixpoint actr (nq : nat) (c : circuit) (i : N) : N :=
  match c with
  | [] => i
  | g :: r => match aact_of nq g with AX cs t => xperm cs t (actr nq r i) | _ => actr nq r i end
  end.

Lemma actr_actf nq c : forall i, actr nq c (actf nq c i) = i.
Proof.
  induction c as [|g c IH]; intros i; cbn [actf actr]; [reflexivity|].
  pose proof (aact_of_wf nq g) as Hw. destruct (aact_of nq g); rewrite ?IH; try reflexivity.
  now apply xperm_invol.
Qed.
Lemma actf_actr nq c : forall i, actf nq c (actr nq c i) = i.
Proof.
  induction c as [|g c IH]; intros i; cbn [actf actr]; [reflexivity|].
  pose proof (aact_of_wf nq g) as Hw. destruct (aact_of nq g); rewrite ?IH; try reflexivity.
  rewrite xperm_invol by exact Hw. apply IH.
Qed.

(* what aact_of says about cact_of *)
Lemma qs_ok_spec nq qs : qs_ok nq qs = true -> (forall q, In q qs -> (q < nq)%nat) /\ NoDup qs.
Proof.
  unfold qs_ok. rewrite andb_true_iff, forallb_forall. intros [H1 H2]. split.
  - intros q Hq. now apply Nat.ltb_lt, H1.
  - now apply nodupb_NoDup.
Qed.

Lemma in_removelast {A} (l : list A) x : In x (removelast l) -> In x l.
Proof.
  induction l as [|y r IH]; [intros []|]. destruct r as [|z r']; [intros []|].
  change (removelast (y :: z :: r')) with (y :: removelast (z :: r')).
  intros [->|H]; [now left|right; now apply IH].
Qed.
Lemma in_last (l : list nat) d : l <> [] -> In (last l d) l.
Proof.
  induction l as [|y r IH]; [congruence|]. intros _. destruct r as [|z r']; [now left|].
  right. apply IH. discriminate.
Qed.

Lemma aact_AX nq g cs t : aact_of nq g = AX cs t ->
  exists cs' t', cact_of g = CFlip cs' t' /\ cs = nN cs' /\ t = N.of_nat t' /\
                 ~ In t' cs' /\ (t' < nq)%nat.
Proof.
  unfold aact_of. destruct (qs_ok nq (gqs g)) eqn:Hok; cbn [negb]; [|discriminate].
  apply qs_ok_spec in Hok as [Hlt Hnd].
  destruct (cact_of g) as [cs' t'| |] eqn:Ec.
  - intros H. injection H as <- <-. exists cs', t'. repeat split; try reflexivity.
    + apply cact_of_flip in Ec as [-> ->]. now apply NoDup_last_removelast.
    + pose proof Ec as Ec'. apply cact_of_flip in Ec' as [_ ->]. apply Hlt.
      apply in_last. intros Hnil. unfold cact_of in Ec. rewrite Hnil in Ec.
      destruct (gkind g) as [b| | | | |k|b k| |]; try destruct b; cbn in Ec; discriminate.
  - discriminate.
  - destruct (gkind g) as [b| | | | |k|b k| |]; try destruct b; try discriminate;
      destruct (gqs g) as [|? [|? [|? ?]]]; try discriminate;
      match goal with |- (if ?c then _ else _) = _ -> _ => destruct c end; discriminate.
Qed.

Lemma aact_AId nq g : aact_of nq g = AId -> cact_of g = CId.
Proof.
  unfold aact_of. destruct (qs_ok nq (gqs g)); cbn [negb]; [|discriminate].
  destruct (cact_of g) as [cs' t'| |]; try discriminate; [reflexivity|].
  destruct (gkind g) as [b| | | | |k|b k| |]; try destruct b; try discriminate;
    destruct (gqs g) as [|? [|? [|? ?]]]; try discriminate;
    match goal with |- (if ?c then _ else _) = _ -> _ => destruct c end; discriminate.
Qed.

Lemma ctl_nN cs i : ctl (nN cs) i = forallb (bitsf i) cs.
Proof. unfold ctl, nN. induction cs as [|c cs IH]; cbn [map forallb]; [reflexivity|]. now rewrite IH. Qed.

Lemma bitsf_xperm cs t i q :
  bitsf (xperm (nN cs) (N.of_nat t) i) q = fflip (bitsf i) cs t q.
Proof.
  unfold xperm, fflip. rewrite ctl_nN. destruct (forallb (bitsf i) cs).
  - unfold bitsf. rewrite flipq_bits. destruct (Nat.eqb_spec q t) as [->|Hne].
    + now rewrite N.eqb_refl.
    + destruct (N.eqb_spec (N.of_nat t) (N.of_nat q)) as [E|_]; [apply Nat2N.inj in E; congruence|apply xorb_false_r].
  - destruct (Nat.eqb_spec q t) as [->|_]; [now rewrite xorb_false_r|reflexivity].
Qed.

(* the index action IS the classical simulation of Circ.v *)
Lemma actf_fsim nq c : xonly nq c = true -> forall i,
  exists f, fsim (bitsf i) c = Some f /\ forall q, f q = bitsf (actf nq c i) q.
Proof.
  induction c as [|g c IH]; intros Hx i; cbn [fsim actf].
  - exists (bitsf i). now split.
  - cbn [xonly forallb] in Hx. apply andb_true_iff in Hx as [Hg Hc]. fold (xonly nq c) in Hc.
    destruct (aact_of nq g) as [cs t| | | | |] eqn:Ea; try discriminate.
    + apply aact_AX in Ea as (cs' & t' & Ec & -> & -> & _ & _). rewrite Ec.
      destruct (IH Hc (xperm (nN cs') (N.of_nat t') i)) as (f & Hf & Hq).
      pose proof (fsim_ext c _ _ (bitsf_xperm cs' t' i)) as He. rewrite Hf in He.
      destruct (fsim (fflip (bitsf i) cs' t') c) as [f2|]; [|contradiction].
      exists f2. split; [reflexivity|]. intros q. cbn in He. now rewrite <- He, Hq.
    + apply aact_AId in Ea. rewrite Ea. now apply IH.
Qed.

(* qubits at or beyond nq are never touched *)
Lemma actf_high nq c : forall i q, N.of_nat nq <= q -> N.testbit (actf nq c i) q = N.testbit i q.
Proof.
  induction c as [|g c IH]; intros i q Hq; cbn [actf]; [reflexivity|].
  destruct (aact_of nq g) as [cs t| | | | |] eqn:Ea; try now apply IH.
  rewrite IH by exact Hq. apply aact_AX in Ea as (cs' & t' & _ & -> & -> & _ & Ht).
  unfold xperm. destruct (ctl (nN cs') i); [|reflexivity]. rewrite flipq_bits.
  destruct (N.eqb_spec (N.of_nat t') q); [lia|apply xorb_false_r].
Qed.

(* ================================================================== *)
(* B. amplitude semantics of an X-family circuit                       *)
(* ================================================================== *)
Lemma run_ref_classical nq c : xonly nq c = true -> forall psi k,
  exists psi', run_ref nq c (psi, k) = Some (psi', k) /\ forall i, psi' i = psi (actr nq c i).
Proof.
  induction c as [|g c IH]; intros Hx psi k; cbn [run_ref actr].
  - exists psi. now split.
  - cbn [xonly forallb] in Hx. apply andb_true_iff in Hx as [Hg Hc]. fold (xonly nq c) in Hc.
    destruct (aact_of nq g) as [cs t| | | | |]; try discriminate; cbn [ref_step fst snd].
    + destruct (IH Hc (refX cs t psi) k) as (psi' & Hr & Hp). exists psi'. split; [exact Hr|].
      intros i. now rewrite Hp.
    + now apply IH.
Qed.

(* ================================================================== *)
(* C. the key lemma: a clean xor-oracle circuit acts like the abstract map *)
(* ================================================================== *)
Section Oracle.
  Variables (n nq : nat) (c : circuit) (ds : defs) (ret out : nat).
  Hypothesis Hout : (n <= out < nq)%nat.
  Hypothesis Hx : xonly nq c = true.
  Hypothesis H06 : c06_holds n nq c ds ret out.

  (* the predicate the oracle computes *)
  Definition ofun (x : N) : bool := run_defs (asg x) ds ret.
  Definition lowpart (i : N) : N := N.land i (N.ones (N.of_nat n)).
  (* only the search register and the output qubit may be non-zero *)
  Definition cleanb (i : N) : bool :=
    N.eqb (N.ldiff i (N.lor (N.ones (N.of_nat n)) (bitm (N.of_nat out)))) 0.
  (* (x, y, 0) |-> (x, y xor f x, 0) *)
  Definition omap (i : N) : N := if ofun (lowpart i) then flipq (N.of_nat out) i else i.

  Lemma lowpart_bits i j : N.testbit (lowpart i) j = (j <? N.of_nat n) && N.testbit i j.
  Proof.
    unfold lowpart. rewrite N.land_spec. destruct (N.ltb_spec j (N.of_nat n)) as [H|H].
    - rewrite N.ones_spec_low by exact H. apply andb_true_r.
    - rewrite N.ones_spec_high by exact H. apply andb_false_r.
  Qed.
  Lemma lowpart_inr i : inr n (lowpart i).
  Proof.
    apply inr_bits. intros m Hm. rewrite lowpart_bits. destruct (N.ltb_spec m (N.of_nat n)); [lia|reflexivity].
  Qed.

  Lemma cleanb_spec i : cleanb i = true <->
    (forall j, N.testbit i j = true -> j < N.of_nat n \/ j = N.of_nat out).
  Proof.
    unfold cleanb. rewrite N.eqb_eq. split.
    - intros H j Hj.
      assert (Hb : N.testbit (N.ldiff i (N.lor (N.ones (N.of_nat n)) (bitm (N.of_nat out)))) j = false)
        by (rewrite H; apply N.bits_0).
      rewrite N.ldiff_spec, N.lor_spec, Hj, bitm_pow, N.pow2_bits_eqb in Hb. cbn [andb] in Hb.
      apply negb_false_iff, orb_true_iff in Hb as [Hb|Hb].
      + left. now apply N.ones_spec_iff.
      + right. apply N.eqb_eq in Hb. now symmetry.
    - intros H. apply N.bits_inj_0. intros j. rewrite N.ldiff_spec, N.lor_spec, bitm_pow, N.pow2_bits_eqb.
      destruct (N.testbit i j) eqn:Hj; [|reflexivity]. cbn [andb]. apply negb_false_iff, orb_true_iff.
      destruct (H j Hj) as [Hl| ->]; [left; now apply N.ones_spec_iff|right; apply N.eqb_refl].
  Qed.

  Lemma cleanb_false_spec i : cleanb i = false <->
    exists j, N.testbit i j = true /\ N.of_nat n <= j /\ j <> N.of_nat out.
  Proof.
    split.
    - intros H. unfold cleanb in H. apply N.eqb_neq in H.
      destruct (N.eq_dec (N.ldiff i (N.lor (N.ones (N.of_nat n)) (bitm (N.of_nat out)))) 0) as [E|E]; [contradiction|].
      pose proof (N.bit_log2 _ E) as Hb. set (j := N.log2 _) in Hb.
      rewrite N.ldiff_spec, N.lor_spec, bitm_pow, N.pow2_bits_eqb in Hb.
      apply andb_true_iff in Hb as [H1 H2]. apply negb_true_iff, orb_false_iff in H2 as [H2 H3].
      exists j. repeat split; [exact H1| |].
      + destruct (N.lt_ge_cases j (N.of_nat n)) as [Hl|Hl]; [|exact Hl].
        rewrite N.ones_spec_low in H2 by exact Hl. discriminate.
      + intros ->. now rewrite N.eqb_refl in H3.
    - intros (j & Hj & Hn & Ho). destruct (cleanb i) eqn:E; [|reflexivity].
      rewrite cleanb_spec in E. destruct (E j Hj); [lia|contradiction].
  Qed.

  Lemma cleanb_flip i : cleanb (flipq (N.of_nat out) i) = cleanb i.
  Proof.
    unfold cleanb. f_equal. apply N.bits_inj. intros j.
    rewrite !N.ldiff_spec, flipq_bits, N.lor_spec, bitm_pow, N.pow2_bits_eqb.
    destruct (N.eqb_spec (N.of_nat out) j) as [E|_]; [now rewrite orb_true_r, !andb_false_r|now rewrite xorb_false_r].
  Qed.

  Lemma lowpart_flip i : lowpart (flipq (N.of_nat out) i) = lowpart i.
  Proof.
    apply N.bits_inj. intros j. rewrite !lowpart_bits, flipq_bits.
    destruct (N.ltb_spec j (N.of_nat n)) as [H|H]; [|reflexivity]. cbn [andb].
    destruct (N.eqb_spec (N.of_nat out) j); [lia|apply xorb_false_r].
  Qed.

  Lemma omap_clean i : cleanb (omap i) = cleanb i.
  Proof. unfold omap. destruct (ofun (lowpart i)); [apply cleanb_flip|reflexivity]. Qed.
  Lemma omap_low i : lowpart (omap i) = lowpart i.
  Proof. unfold omap. destruct (ofun (lowpart i)); [apply lowpart_flip|reflexivity]. Qed.
  Lemma omap_invol i : omap (omap i) = i.
  Proof.
    unfold omap at 1. rewrite omap_low. unfold omap. destruct (ofun (lowpart i)); [apply flipq_invol|reflexivity].
  Qed.

  (* on a clean index the circuit IS the abstract map (from c06_holds) *)
  Lemma actf_clean i : cleanb i = true -> actf nq c i = omap i.
  Proof.
    intros Hc. pose proof (proj1 (cleanb_spec i) Hc) as Hb.
    destruct (H06 (lowpart i) (lowpart_inr i) (N.testbit i (N.of_nat out))) as (f & Hf & Hq).
    destruct (actf_fsim nq c Hx i) as (f2 & Hf2 & Hq2).
    assert (Hext : forall q, basis6 n out (lowpart i) (N.testbit i (N.of_nat out)) q = bitsf i q).
    { intros q. unfold basis6, bitsf. destruct (Nat.ltb_spec q n) as [Hl|Hl].
      - rewrite lowpart_bits. destruct (N.ltb_spec (N.of_nat q) (N.of_nat n)); [reflexivity|lia].
      - destruct (Nat.eqb_spec q out) as [->|Hne]; [reflexivity|].
        destruct (N.testbit i (N.of_nat q)) eqn:E; [|reflexivity].
        destruct (Hb _ E) as [H1|H1]; [lia|apply Nat2N.inj in H1; congruence]. }
    pose proof (fsim_ext c _ _ Hext) as He. rewrite Hf, Hf2 in He. cbn in He.
    apply N.bits_inj. intros j.
    destruct (N.lt_ge_cases j (N.of_nat nq)) as [Hj|Hj].
    - rewrite <- (N2Nat.id j). set (q := N.to_nat j). assert (Hqn : (q < nq)%nat) by (unfold q; lia).
      change (bitsf (actf nq c i) q = bitsf (omap i) q). rewrite <- Hq2, <- He, Hq by exact Hqn.
      unfold omap, ofun, bitsf.
      destruct (Nat.ltb_spec q n) as [Hl|Hl].
      + rewrite lowpart_bits. destruct (N.ltb_spec (N.of_nat q) (N.of_nat n)); [|lia]. cbn [andb].
        destruct (run_defs (asg (lowpart i)) ds ret); [|reflexivity].
        rewrite flipq_bits. destruct (N.eqb_spec (N.of_nat out) (N.of_nat q)); [lia|now rewrite xorb_false_r].
      + destruct (Nat.eqb_spec q out) as [->|Hne].
        * destruct (run_defs (asg (lowpart i)) ds ret); [|now rewrite xorb_false_r].
          now rewrite flipq_bits, N.eqb_refl.
        * assert (Hz : N.testbit i (N.of_nat q) = false).
          { destruct (N.testbit i (N.of_nat q)) eqn:E; [|reflexivity].
            destruct (Hb _ E) as [H1|H1]; [lia|apply Nat2N.inj in H1; congruence]. }
          destruct (run_defs (asg (lowpart i)) ds ret); [|now rewrite Hz].
          rewrite flipq_bits, Hz. destruct (N.eqb_spec (N.of_nat out) (N.of_nat q)) as [E|_]; [apply Nat2N.inj in E; congruence|reflexivity].
    - rewrite actf_high by exact Hj.
      unfold omap. destruct (ofun (lowpart i)); [|reflexivity].
      rewrite flipq_bits. destruct (N.eqb_spec (N.of_nat out) j); [lia|now rewrite xorb_false_r].
  Qed.

  Lemma actr_clean i : cleanb i = true -> actr nq c i = omap i.
  Proof.
    intros Hc. rewrite <- (omap_invol i) at 1.
    rewrite <- (actf_clean (omap i)) by (now rewrite omap_clean). apply actr_actf.
  Qed.

  Lemma actr_dirty i : cleanb i = false -> cleanb (actr nq c i) = false.
  Proof.
    intros Hc. destruct (cleanb (actr nq c i)) eqn:E; [|reflexivity].
    pose proof (actf_clean _ E) as H. rewrite actf_actr in H.
    rewrite H, omap_clean, E in Hc. discriminate.
  Qed.

  (* KEY LEMMA.  The oracle circuit, run on ANY reference state, permutes the
     amplitudes of the clean basis states by (x, y, 0) |-> (x, y xor f x, 0) and maps
     non-clean basis states to non-clean ones. *)
  Theorem oracle_action psi k :
    exists psi', run_ref nq c (psi, k) = Some (psi', k) /\
      (forall i, cleanb i = true -> psi' i = psi (omap i)) /\
      (forall i, cleanb i = false -> exists j, cleanb j = false /\ psi' i = psi j).
  Proof.
    destruct (run_ref_classical nq c Hx psi k) as (psi' & Hr & Hp). exists psi'. split; [exact Hr|]. split.
    - intros i Hc. now rewrite Hp, actr_clean.
    - intros i Hc. exists (actr nq c i). split; [now apply actr_dirty|apply Hp].
  Qed.

  (* for a state supported on the clean basis states *)
  Corollary oracle_action_clean psi k : (forall i, cleanb i = false -> psi i = 0%Z) ->
    exists psi', run_ref nq c (psi, k) = Some (psi', k) /\
      forall i, psi' i = if cleanb i then psi (omap i) else 0%Z.
  Proof.
    intros Hs. destruct (oracle_action psi k) as (psi' & Hr & H1 & H2). exists psi'. split; [exact Hr|].
    intros i. destruct (cleanb i) eqn:E; [now apply H1|].
    destruct (H2 i E) as (j & Hj & ->). now apply Hs.
  Qed.
End Oracle.

(* ================================================================== *)
(* D. Deutsch-Jozsa and Bernstein-Vazirani                             *)
(* ================================================================== *)
(* ---- the gates of the construction models under aact_of ---- *)
Lemma aact_gBar nq : aact_of nq gBar = AId.
Proof. reflexivity. Qed.
Lemma aact_gH nq q : (q < nq)%nat -> aact_of nq (gH q) = AH (N.of_nat q).
Proof. intros H. unfold aact_of, gH, qs_ok. cbn -[Nat.ltb N.of_nat]. apply Nat.ltb_lt in H. now rewrite H. Qed.
Lemma aact_gX nq q : (q < nq)%nat -> aact_of nq (gX q) = AX [] (N.of_nat q).
Proof. intros H. unfold aact_of, gX, qs_ok. cbn -[Nat.ltb N.of_nat]. apply Nat.ltb_lt in H. now rewrite H. Qed.
Lemma aact_gZ nq q : (q < nq)%nat -> aact_of nq (gZ q) = AZ [N.of_nat q].
Proof. intros H. unfold aact_of, gZ, qs_ok. cbn -[Nat.ltb N.of_nat]. apply Nat.ltb_lt in H. now rewrite H. Qed.

Lemma run_ref_bar nq r s : run_ref nq (gBar :: r) s = run_ref nq r s.
Proof. cbn [run_ref]. now rewrite aact_gBar. Qed.
Lemma run_ref_H nq q r psi k : (q < nq)%nat ->
  run_ref nq (gH q :: r) (psi, k) = run_ref nq r (refH (N.of_nat q) psi, S k).
Proof. intros H. cbn [run_ref]. now rewrite aact_gH. Qed.
Lemma run_ref_X nq q r psi k : (q < nq)%nat ->
  run_ref nq (gX q :: r) (psi, k) = run_ref nq r (refX [] (N.of_nat q) psi, k).
Proof. intros H. cbn [run_ref]. now rewrite aact_gX. Qed.
Lemma run_ref_Z nq q r psi k : (q < nq)%nat ->
  run_ref nq (gZ q :: r) (psi, k) = run_ref nq r (refZ [N.of_nat q] psi, k).
Proof. intros H. cbn [run_ref]. now rewrite aact_gZ. Qed.

Lemma h_layer_S n : h_layer (S n) = h_layer n ++ [gH n].
Proof. unfold h_layer. now rewrite seq_S, map_app. Qed.

(* gate by gate = the layer: the link between the circuit and the WH algebra *)
Lemma run_ref_hlayer nq n : (n <= nq)%nat -> forall psi k,
  run_ref nq (h_layer n) (psi, k) = Some (hlayer n psi, (k + n)%nat).
Proof.
  induction n as [|n IH]; intros Hn psi k.
  - cbn. now rewrite Nat.add_0_r.
  - rewrite h_layer_S, run_ref_app, IH by lia. rewrite run_ref_H by lia. cbn [run_ref hlayer].
    now rewrite Nat.add_succ_r.
Qed.

Corollary run_ref_hlayer_WH nq n psi k : (n <= nq)%nat ->
  exists psi', run_ref nq (h_layer n) (psi, k) = Some (psi', (k + n)%nat) /\ forall i, psi' i = WH n psi i.
Proof. intros H. exists (hlayer n psi). split; [now apply run_ref_hlayer|apply hlayer_WH]. Qed.

Lemma sumN_sgn n b f : sumN n (fun x => sgn b (f x)) = sgn b (sumN n f).
Proof. destruct b; cbn [sgn]; [apply sumN_opp|reflexivity]. Qed.

(* |0..0> after the first Hadamard layer: uniform over the search register *)
Definition highz (n : nat) (i : N) : bool := N.eqb (N.ldiff i (N.ones (N.of_nat n))) 0.

Lemma highz_spec n i : highz n i = true <-> (forall j, N.of_nat n <= j -> N.testbit i j = false).
Proof.
  unfold highz. rewrite N.eqb_eq. split.
  - intros H j Hj. assert (Hb : N.testbit (N.ldiff i (N.ones (N.of_nat n))) j = false) by (rewrite H; apply N.bits_0).
    rewrite N.ldiff_spec, N.ones_spec_high in Hb by exact Hj. now rewrite andb_true_r in Hb.
  - intros H. apply N.bits_inj_0. intros j. rewrite N.ldiff_spec.
    destruct (N.lt_ge_cases j (N.of_nat n)) as [Hj|Hj].
    + rewrite N.ones_spec_low by exact Hj. apply andb_false_r.
    + now rewrite H.
Qed.

Lemma setlow_eq0 n i x : inr n x -> N.eqb (setlow n i x) 0 = N.eqb x 0 && highz n i.
Proof.
  intros Hx. apply eq_true_iff_eq. rewrite andb_true_iff, !N.eqb_eq, highz_spec. split.
  - intros H. split.
    + apply N.bits_inj_0. intros j. destruct (N.lt_ge_cases j (N.of_nat n)) as [Hj|Hj].
      * assert (Hb : N.testbit (setlow n i x) j = false) by (rewrite H; apply N.bits_0).
        rewrite setlow_bits in Hb. apply N.ltb_lt in Hj. now rewrite Hj in Hb.
      * now apply (inr_high n x).
    + intros j Hj. assert (Hb : N.testbit (setlow n i x) j = false) by (rewrite H; apply N.bits_0).
      rewrite setlow_bits in Hb. destruct (N.ltb_spec j (N.of_nat n)); [lia|exact Hb].
  - intros [-> H]. apply N.bits_inj_0. intros j. rewrite setlow_bits.
    destruct (N.ltb_spec j (N.of_nat n)); [apply N.bits_0|now apply H].
Qed.

Lemma hlayer_delta0 n i : hlayer n delta0 i = if highz n i then 1%Z else 0%Z.
Proof.
  rewrite hlayer_WH. unfold WH.
  rewrite (sumN_ext n _ (fun x => if N.eqb x 0 then sgn (dotb n x i) (if highz n i then 1 else 0)%Z else 0%Z)).
  - rewrite (sumN_single n 0 (fun x => sgn (dotb n x i) (if highz n i then 1 else 0)%Z)) by apply inr_0.
    rewrite dotb_comm, dotb_lowz by (apply lowz_spec; intros; apply N.bits_0). reflexivity.
  - intros x Hx. unfold delta0. rewrite (setlow_eq0 n i x Hx).
    destruct (N.eqb x 0); cbn [andb]; [reflexivity|apply sgn_0].
Qed.

Section Sandwich.
  Variables (n nq : nat) (c : circuit) (ds : defs) (ret out : nat).
  Hypothesis Hout : (n <= out < nq)%nat.
  Hypothesis Hx : xonly nq c = true.
  Hypothesis H06 : c06_holds n nq c ds ret out.
  Let r := N.of_nat out.
  Let f := ofun ds ret.
  Let clean := cleanb n out.

  (* output qubit in |0> - |1>, search register uniform, everything else 0 *)
  Definition prep_state (i : N) : Z := if clean i then sgn (N.testbit i r) 1%Z else 0%Z.

  Lemma highz_clearbit i : highz n (N.clearbit i r) = clean i.
  Proof.
    unfold highz, clean, cleanb. f_equal. apply N.bits_inj. intros j.
    rewrite !N.ldiff_spec, N.clearbit_eqb, N.lor_spec, bitm_pow, N.pow2_bits_eqb. fold r.
    destruct (N.eqb_spec r j), (N.testbit i j), (N.testbit (N.ones (N.of_nat n)) j); reflexivity.
  Qed.
  Lemma highz_setbit i : highz n (N.setbit i r) = false.
  Proof.
    destruct (highz n (N.setbit i r)) eqn:E; [|reflexivity]. rewrite highz_spec in E.
    specialize (E r). rewrite testbit_setbit in E. unfold r in E. assert (N.of_nat n <= N.of_nat out) by lia. auto.
  Qed.
  Lemma flipq_clearbit i : N.testbit i r = true -> flipq r i = N.clearbit i r.
  Proof.
    intros H. apply N.bits_inj. intros j. rewrite flipq_bits, N.clearbit_eqb.
    destruct (N.eqb_spec r j) as [<-|_]; [now rewrite H|now rewrite xorb_false_r, andb_true_r].
  Qed.
  Lemma flipq_setbit i : N.testbit i r = false -> flipq r i = N.setbit i r.
  Proof.
    intros H. apply N.bits_inj. intros j. rewrite flipq_bits, N.setbit_eqb.
    destruct (N.eqb_spec r j) as [<-|_]; [now rewrite H|now rewrite xorb_false_r].
  Qed.

  (* X then H on the output qubit (Deutsch-Jozsa) *)
  Lemma prep_dj psi : (forall i, psi i = if highz n i then 1%Z else 0%Z) ->
    forall i, refH r (refX [] r psi) i = prep_state i.
  Proof.
    intros Hp i. unfold refH, refX, xperm, prep_state. cbn [ctl forallb].
    rewrite (flipq_setbit (N.clearbit i r)) by apply testbit_clearbit.
    rewrite (flipq_clearbit (N.setbit i r)) by apply testbit_setbit.
    rewrite !Hp, setbit_of_clearbit, clearbit_of_setbit, highz_setbit, highz_clearbit.
    destruct (clean i), (N.testbit i r); reflexivity.
  Qed.
  (* H then Z on the output qubit (Bernstein-Vazirani) *)
  Lemma prep_bv psi : (forall i, psi i = if highz n i then 1%Z else 0%Z) ->
    forall i, refZ [r] (refH r psi) i = prep_state i.
  Proof.
    intros Hp i. unfold refZ, refH, prep_state. cbn [ctl forallb]. rewrite andb_true_r.
    rewrite !Hp, highz_setbit, highz_clearbit.
    destruct (clean i), (N.testbit i r); reflexivity.
  Qed.

  Lemma clean_setlow i x : clean (setlow n i x) = clean i.
  Proof.
    unfold clean, cleanb. f_equal. apply N.bits_inj. intros j.
    rewrite !N.ldiff_spec, setlow_bits, N.lor_spec.
    destruct (N.ltb_spec j (N.of_nat n)) as [H|H]; [|reflexivity].
    rewrite N.ones_spec_low by exact H. now rewrite !andb_false_r.
  Qed.
  Lemma lowpart_setlow i x : inr n x -> lowpart n (setlow n i x) = x.
  Proof.
    intros Hxx. apply N.bits_inj. intros j. rewrite lowpart_bits, setlow_bits.
    destruct (N.ltb_spec j (N.of_nat n)) as [H|H]; [reflexivity|]. cbn [andb]. symmetry. now apply (inr_high n x).
  Qed.
  Lemma r_setlow i x : N.testbit (setlow n i x) r = N.testbit i r.
  Proof. rewrite setlow_bits. destruct (N.ltb_spec r (N.of_nat n)); [unfold r in *; lia|reflexivity]. Qed.

  (* [barrier] oracle [barrier] H-layer, from the prepared state *)
  Lemma sandwich_tail psi k : (forall i, psi i = prep_state i) ->
    exists psi', run_ref nq ([gBar] ++ c ++ [gBar] ++ h_layer n) (psi, k) = Some (psi', (k + n)%nat) /\
      forall i, psi' i = if clean i
                         then sgn (N.testbit i r) (sumN n (fun x => sgn (xorb (dotb n x i) (f x)) 1%Z))
                         else 0%Z.
  Proof.
    intros Hp. cbn [app]. rewrite run_ref_bar, run_ref_app.
    destruct (oracle_action_clean n nq c ds ret out Hout Hx H06 psi k) as (psi4 & Hr & H4).
    { intros i Hc. rewrite Hp. unfold prep_state, clean. now rewrite Hc. }
    rewrite Hr. cbn [app]. rewrite run_ref_bar, run_ref_hlayer by lia.
    eexists. split; [reflexivity|]. intros i. rewrite hlayer_WH. unfold WH.
    assert (E : forall x, inr n x -> sgn (dotb n x i) (psi4 (setlow n i x)) =
              if clean i then sgn (N.testbit i r) (sgn (xorb (dotb n x i) (f x)) 1%Z) else 0%Z).
    { intros x Hxx. rewrite H4. fold clean. rewrite clean_setlow. destruct (clean i) eqn:Ec; [|apply sgn_0].
      rewrite Hp. unfold prep_state. fold (omap n ds ret out (setlow n i x)). rewrite (omap_clean n ds ret out).
      fold clean. rewrite clean_setlow, Ec.
      unfold omap. rewrite lowpart_setlow by exact Hxx. fold f. fold r.
      destruct (f x).
      - rewrite flipq_bits, N.eqb_refl, r_setlow.
        destruct (N.testbit i r), (dotb n x i); reflexivity.
      - rewrite r_setlow. destruct (N.testbit i r), (dotb n x i); reflexivity. }
    rewrite (sumN_ext n _ _ E). destruct (clean i); [apply sumN_sgn|apply sumN_zero].
  Qed.

  (* ---- Deutsch-Jozsa ---- *)
  Theorem dj_amplitudes :
    exists psi, run_ref nq (dj_circuit n out c) (delta0, 0%nat) = Some (psi, (2 * n + 1)%nat) /\
      forall i, psi i = if clean i
                        then sgn (N.testbit i r) (sumN n (fun x => sgn (xorb (dotb n x i) (f x)) 1%Z))
                        else 0%Z.
  Proof.
    unfold dj_circuit. cbn [app]. rewrite run_ref_bar, run_ref_app, run_ref_hlayer by lia.
    cbn [app]. rewrite run_ref_X, run_ref_H by lia. fold r.
    destruct (sandwich_tail (refH r (refX [] r (hlayer n delta0))) (S (0 + n))) as (psi & Hr & Hp).
    { apply prep_dj. apply hlayer_delta0. }
    exists psi. split; [|exact Hp]. cbn [app] in Hr. rewrite Hr. do 2 f_equal. lia.
  Qed.

  (* ---- Bernstein-Vazirani (same sandwich, the output qubit prepared with H ; Z) ---- *)
  Theorem bv_amplitudes :
    exists psi, run_ref nq (bv_circuit n out c) (delta0, 0%nat) = Some (psi, (2 * n + 1)%nat) /\
      forall i, psi i = if clean i
                        then sgn (N.testbit i r) (sumN n (fun x => sgn (xorb (dotb n x i) (f x)) 1%Z))
                        else 0%Z.
  Proof.
    unfold bv_circuit. cbn [app]. rewrite run_ref_bar, run_ref_app, run_ref_hlayer by lia.
    cbn [app]. rewrite run_ref_H, run_ref_Z by lia. fold r.
    destruct (sandwich_tail (refZ [r] (refH r (hlayer n delta0))) (S (0 + n))) as (psi & Hr & Hp).
    { apply prep_bv. apply hlayer_delta0. }
    exists psi. split; [|exact Hp]. cbn [app] in Hr. rewrite Hr. do 2 f_equal. lia.
  Qed.
End Sandwich.

(* ---- reading the Deutsch-Jozsa amplitudes ---- *)
(* sum over x of (-1)^(f x) *)
Definition fsum (n : nat) (f : N -> bool) : Z := sumN n (fun x => sgn (f x) 1%Z).
(* number of x with f x = true *)
Definition fcount (n : nat) (f : N -> bool) : Z := sumN n (fun x => if f x then 1%Z else 0%Z).

Lemma fsum_count n f : fsum n f = (pow2z n - 2 * fcount n f)%Z.
Proof.
  unfold fsum, fcount.
  rewrite (sumN_ext n _ (fun x => (1 + (-2) * (if f x then 1 else 0))%Z)) by (intros x _; destruct (f x); reflexivity).
  rewrite sumN_add, sumN_scale, sumN_const. lia.
Qed.

Lemma cleanb_lowz n out i : (n <= out)%nat -> lowz n i = true -> cleanb n out i = true ->
  i = 0 \/ i = bitm (N.of_nat out).
Proof.
  intros Ho Hl Hc. rewrite lowz_spec in Hl. rewrite cleanb_spec in Hc.
  destruct (N.testbit i (N.of_nat out)) eqn:E.
  - right. apply N.bits_inj. intros j. rewrite bitm_pow, N.pow2_bits_eqb.
    destruct (N.eqb_spec (N.of_nat out) j) as [<-|Hne]; [exact E|].
    destruct (N.testbit i j) eqn:Ej; [|reflexivity]. destruct (Hc j Ej) as [H|H]; [|congruence].
    rewrite Hl in Ej by exact H. discriminate.
  - left. apply N.bits_inj_0. intros j. destruct (N.testbit i j) eqn:Ej; [|reflexivity].
    destruct (Hc j Ej) as [H|H]; [rewrite Hl in Ej by exact H; discriminate|congruence].
Qed.

Lemma cleanb_0 n out : cleanb n out 0 = true.
Proof. apply cleanb_spec. intros j. rewrite N.bits_0. discriminate. Qed.
Lemma cleanb_bitm n out : cleanb n out (bitm (N.of_nat out)) = true.
Proof.
  apply cleanb_spec. intros j. rewrite bitm_pow, N.pow2_bits_eqb. intros H. apply N.eqb_eq in H. now right.
Qed.
Lemma lowz_0 n : lowz n 0 = true.
Proof. apply lowz_spec. intros. apply N.bits_0. Qed.
Lemma lowz_bitm n out : (n <= out)%nat -> lowz n (bitm (N.of_nat out)) = true.
Proof.
  intros H. apply lowz_spec. intros j Hj. rewrite bitm_pow, N.pow2_bits_eqb.
  destruct (N.eqb_spec (N.of_nat out) j); [lia|reflexivity].
Qed.

Section DJ.
  Variables (n nq : nat) (c : circuit) (ds : defs) (ret out : nat).
  Hypothesis Hout : (n <= out < nq)%nat.
  Hypothesis Hx : xonly nq c = true.
  Hypothesis H06 : c06_holds n nq c ds ret out.
  Let f := ofun ds ret.

  (* the all-zero search outcome: amplitude  +- sum_x (-1)^(f x)  over sqrt(2)^(2n+1)
     on the two basis states (output qubit 0 / 1, scratch 0), zero on every other
     basis state whose search bits are all zero *)
  Theorem dj_zero_outcome :
    exists psi, run_ref nq (dj_circuit n out c) (delta0, 0%nat) = Some (psi, (2 * n + 1)%nat) /\
      psi 0 = fsum n f /\ psi (bitm (N.of_nat out)) = (- fsum n f)%Z /\
      (forall i, lowz n i = true -> i <> 0 -> i <> bitm (N.of_nat out) -> psi i = 0%Z).
  Proof.
    destruct (dj_amplitudes n nq c ds ret out Hout Hx H06) as (psi & Hr & Hp). exists psi. split; [exact Hr|].
    assert (Hz : forall i, lowz n i = true ->
              sumN n (fun x => sgn (xorb (dotb n x i) (ofun ds ret x)) 1%Z) = fsum n f).
    { intros i Hl. unfold fsum. apply sumN_ext. intros x _. rewrite dotb_lowz by exact Hl. now rewrite xorb_false_l. }
    repeat split.
    - rewrite Hp, cleanb_0, N.bits_0. cbn [sgn]. apply Hz, lowz_0.
    - rewrite Hp, cleanb_bitm, bitm_pow, N.pow2_bits_true. cbn [sgn]. f_equal.
      rewrite <- bitm_pow. apply Hz. apply lowz_bitm. lia.
    - intros i Hl H0 H1. rewrite Hp. destruct (cleanb n out i) eqn:Ec; [|reflexivity].
      destruct (cleanb_lowz n out i (proj1 Hout) Hl Ec); contradiction.
  Qed.

  (* constant f: the all-zero outcome has probability 1
     (numerators of the two basis states add up to the denominator 2^(2n+1)) *)
  Corollary dj_constant b : (forall x, inr n x -> f x = b) ->
    exists psi, run_ref nq (dj_circuit n out c) (delta0, 0%nat) = Some (psi, (2 * n + 1)%nat) /\
      (psi 0%N * psi 0%N + psi (bitm (N.of_nat out)) * psi (bitm (N.of_nat out)))%Z = pow2z (2 * n + 1).
  Proof.
    intros Hc. destruct dj_zero_outcome as (psi & Hr & H0 & H1 & _). exists psi. split; [exact Hr|].
    rewrite H0, H1. unfold fsum. rewrite (sumN_ext n _ (fun _ => sgn b 1%Z)) by (intros x Hxx; now rewrite Hc).
    rewrite sumN_const. replace (2 * n + 1)%nat with (S (n + n)) by lia. rewrite pow2z_S.
    assert (Hpp : pow2z (n + n) = (pow2z n * pow2z n)%Z).
    { unfold pow2z. rewrite Nat2Z.inj_add, Z.pow_add_r by lia. reflexivity. }
    rewrite Hpp. destruct b; cbn [sgn]; lia.
  Qed.

  (* balanced f (as many x with f x = 1 as with f x = 0): the all-zero outcome never occurs *)
  Corollary dj_balanced : (2 * fcount n f = pow2z n)%Z ->
    exists psi, run_ref nq (dj_circuit n out c) (delta0, 0%nat) = Some (psi, (2 * n + 1)%nat) /\
      forall i, lowz n i = true -> psi i = 0%Z.
  Proof.
    intros Hb. destruct dj_zero_outcome as (psi & Hr & H0 & H1 & H2). exists psi. split; [exact Hr|].
    assert (Hs : fsum n f = 0%Z) by (rewrite fsum_count; lia).
    intros i Hl. destruct (N.eq_dec i 0) as [->|Hn0]; [now rewrite H0|].
    destruct (N.eq_dec i (bitm (N.of_nat out))) as [->|Hn1]; [rewrite H1, Hs; reflexivity|].
    now apply H2.
  Qed.
End DJ.

(* ---- Bernstein-Vazirani ---- *)
Lemma fold_xorb_app a b : fold_right xorb false (a ++ [b]) = xorb (fold_right xorb false a) b.
Proof.
  induction a as [|x a IH]; cbn [app fold_right]; [apply xorb_comm|].
  rewrite IH. now rewrite xorb_assoc.
Qed.

(* secret_oracle(isize, secret) denotes x |-> secret . x *)
Lemma secret_expr_spec n s x : beval (asg x) (secret_expr n s) = dotb n s x.
Proof.
  unfold secret_expr. rewrite beval_xor. induction n as [|n IH]; [reflexivity|].
  rewrite seq_S, !map_app. cbn [map Nat.add]. rewrite fold_xorb_app, IH. cbn [dotb]. rewrite xorb_comm. f_equal.
  rewrite beval_and. cbn [forallb]. unfold beval. cbn [geval]. unfold asg.
  rewrite andb_true_r, andb_comm. destruct (N.testbit s (N.of_nat n)); reflexivity.
Qed.

Lemma ofun_secret rs n s x : ofun [(rs, secret_expr n s)] rs x = dotb n s x.
Proof.
  unfold ofun. rewrite run_defs_cons. unfold run_defs. cbn [fold_left]. rewrite Nat.eqb_refl. apply secret_expr_spec.
Qed.

Lemma lowz_lxor_lowpart n i s : inr n s -> lowz n (N.lxor i s) = N.eqb (lowpart n i) s.
Proof.
  intros Hs. apply eq_true_iff_eq. rewrite lowz_spec, N.eqb_eq. split.
  - intros H. apply N.bits_inj. intros j. rewrite lowpart_bits.
    destruct (N.ltb_spec j (N.of_nat n)) as [Hj|Hj]; cbn [andb].
    + specialize (H j Hj). rewrite N.lxor_spec in H. now apply xorb_eq.
    + symmetry. now apply (inr_high n s).
  - intros <- j Hj. rewrite N.lxor_spec, lowpart_bits. apply N.ltb_lt in Hj. rewrite Hj. apply xorb_nilpotent.
Qed.

Section BV.
  Variables (n nq : nat) (c : circuit) (rs out : nat) (s : N).
  Hypothesis Hout : (n <= out < nq)%nat.
  Hypothesis Hs : inr n s.
  Hypothesis Hx : xonly nq c = true.
  (* the black box is a clean xor-oracle for the expression secret_oracle(n, s) writes *)
  Hypothesis H06 : c06_holds n nq c [(rs, secret_expr n s)] rs out.

  (* all the amplitude sits on the two basis states (search register = s, output 0/1) *)
  Theorem bv_outcome :
    exists psi, run_ref nq (bv_circuit n out c) (delta0, 0%nat) = Some (psi, (2 * n + 1)%nat) /\
      forall i, psi i = if cleanb n out i && N.eqb (lowpart n i) s
                        then sgn (N.testbit i (N.of_nat out)) (pow2z n) else 0%Z.
  Proof.
    destruct (bv_amplitudes n nq c _ rs out Hout Hx H06) as (psi & Hr & Hp). exists psi. split; [exact Hr|].
    intros i. rewrite Hp. destruct (cleanb n out i); cbn [andb]; [|reflexivity].
    rewrite (sumN_ext n _ (fun x => sgn (dotb n x (N.lxor i s)) 1%Z)).
    - rewrite char_sum, (lowz_lxor_lowpart n i s Hs). destruct (N.eqb (lowpart n i) s); [reflexivity|apply sgn_0].
    - intros x _. rewrite ofun_secret, dotb_lxor_r. f_equal. f_equal. apply dotb_comm.
  Qed.

  (* hence the outcome s has probability 1 *)
  Corollary bv_certain :
    exists psi, run_ref nq (bv_circuit n out c) (delta0, 0%nat) = Some (psi, (2 * n + 1)%nat) /\
      (psi s * psi s + psi (N.lor s (bitm (N.of_nat out))) * psi (N.lor s (bitm (N.of_nat out))))%Z = pow2z (2 * n + 1) /\
      forall i, lowpart n i <> s -> psi i = 0%Z.
  Proof.
    destruct bv_outcome as (psi & Hr & Hp). exists psi. split; [exact Hr|].
    assert (Hc1 : cleanb n out s = true).
    { apply cleanb_spec. intros j Hj. left. destruct (N.lt_ge_cases j (N.of_nat n)) as [H|H]; [exact H|].
      rewrite (inr_high n s j Hs H) in Hj. discriminate. }
    assert (Hl1 : lowpart n s = s).
    { apply N.bits_inj. intros j. rewrite lowpart_bits. destruct (N.ltb_spec j (N.of_nat n)) as [H|H]; [reflexivity|].
      cbn [andb]. symmetry. now apply (inr_high n s). }
    set (s1 := N.lor s (bitm (N.of_nat out))).
    assert (Hc2 : cleanb n out s1 = true).
    { apply cleanb_spec. intros j. unfold s1. rewrite N.lor_spec, bitm_pow, N.pow2_bits_eqb. intros Hj.
      apply orb_true_iff in Hj as [Hj|Hj]; [|right; apply N.eqb_eq in Hj; now symmetry].
      left. destruct (N.lt_ge_cases j (N.of_nat n)) as [H|H]; [exact H|]. rewrite (inr_high n s j Hs H) in Hj. discriminate. }
    assert (Hl2 : lowpart n s1 = s).
    { apply N.bits_inj. intros j. unfold s1. rewrite lowpart_bits, N.lor_spec, bitm_pow, N.pow2_bits_eqb.
      destruct (N.ltb_spec j (N.of_nat n)) as [H|H]; cbn [andb].
      - destruct (N.eqb_spec (N.of_nat out) j); [lia|apply orb_false_r].
      - symmetry. now apply (inr_high n s). }
    split.
    - rewrite !Hp, Hc1, Hc2, Hl1, Hl2, N.eqb_refl. cbn [andb].
      replace (2 * n + 1)%nat with (S (n + n)) by lia. rewrite pow2z_S.
      assert (Hpp : pow2z (n + n) = (pow2z n * pow2z n)%Z).
      { unfold pow2z. rewrite Nat2Z.inj_add, Z.pow_add_r by lia. reflexivity. }
      rewrite Hpp. destruct (N.testbit s (N.of_nat out)), (N.testbit s1 (N.of_nat out)); cbn [sgn]; lia.
    - intros i Hne. rewrite Hp. apply N.eqb_neq in Hne. now rewrite Hne, andb_false_r.
  Qed.
End BV.

(* ================================================================== *)
(* E. Simon                                                            *)
(* ================================================================== *)
(* a bounded search is decidable *)
Lemma bsearch n : forall P : N -> bool,
  (forall x, inr n x -> P x = false) \/ (exists x, inr n x /\ P x = true).
Proof.
  induction n as [|n IH]; intros P.
  - destruct (P 0) eqn:E; [right; exists 0; split; [apply inr_0|exact E]|left].
    intros x Hxx. now rewrite (inr_O_eq x Hxx).
  - destruct (IH P) as [H1|(x & Hxx & Hp)]; [|right; exists x; split; [now apply inr_S|exact Hp]].
    destruct (IH (fun x => P (N.setbit x (N.of_nat n)))) as [H2|(x & Hxx & Hp)];
      [|right; exists (N.setbit x (N.of_nat n)); split; [now apply inr_setbit|exact Hp]].
    left. intros x Hxx. destruct (N.testbit x (N.of_nat n)) eqn:E.
    + rewrite <- (setbit_clearbit x (N.of_nat n) E). apply H2. now apply inr_clearbit.
    + apply H1. now apply inr_top_clear.
Qed.

Lemma dotb_lxor_l n a b y : dotb n (N.lxor a b) y = xorb (dotb n a y) (dotb n b y).
Proof. rewrite dotb_comm, dotb_lxor_r. f_equal; apply dotb_comm. Qed.

Lemma highz_inr n i : highz n i = true <-> inr n i.
Proof. rewrite highz_spec. symmetry. apply inr_bits. Qed.

(* inputs preserved, from the verified C03 checker's conclusion *)
Lemma c03_inputs_preserved n nq c outs : xonly nq c = true -> c03_holds n nq c outs ->
  forall x, inr n x -> forall j, j < N.of_nat n -> N.testbit (actf nq c x) j = N.testbit x j.
Proof.
  intros Hx H3 x Hxx j Hj. destruct (H3 x Hxx) as (f & Hf & Hin & _).
  destruct (actf_fsim nq c Hx x) as (f2 & Hf2 & Hq2).
  assert (Hext : forall q, basis n x q = bitsf x q).
  { intros q. unfold basis, bitsf. destruct (Nat.ltb_spec q n); [reflexivity|].
    symmetry. apply (inr_high n x); [exact Hxx|lia]. }
  pose proof (fsim_ext c _ _ Hext) as He. rewrite Hf, Hf2 in He. cbn in He.
  rewrite <- (N2Nat.id j). set (q := N.to_nat j). assert (Hq : (q < n)%nat) by (unfold q; lia).
  change (bitsf (actf nq c x) q = N.testbit x (N.of_nat q)). rewrite <- Hq2, <- He. now apply Hin.
Qed.

Lemma lowpart_inr0 n i : inr n (lowpart n i).
Proof.
  apply inr_bits. intros m Hm. rewrite lowpart_bits. destruct (N.ltb_spec m (N.of_nat n)); [lia|reflexivity].
Qed.

Section Simon.
  Variables (n nq : nat) (c : circuit).
  Hypothesis Hn : (n <= nq)%nat.
  Hypothesis Hx : xonly nq c = true.
  (* the black box maps |x>|0> to |x>|F x>: it preserves the input register ... *)
  Hypothesis Hin : forall x, inr n x -> forall j, j < N.of_nat n -> N.testbit (actf nq c x) j = N.testbit x j.
  (* ... and F x is whatever it leaves on the other qubits *)
  Definition simonF (x : N) : N := N.shiftr (actf nq c x) (N.of_nat n).
  Definition hi (i : N) : N := N.shiftr i (N.of_nat n).

  Lemma image_test i : highz n (actr nq c i) = N.eqb (actf nq c (lowpart n i)) i.
  Proof.
    apply eq_true_iff_eq. rewrite N.eqb_eq, highz_inr. split.
    - intros H. set (j := actr nq c i) in *.
      assert (Hj : actf nq c j = i) by apply actf_actr.
      assert (E : lowpart n i = j).
      { apply N.bits_inj. intros m. rewrite lowpart_bits. destruct (N.ltb_spec m (N.of_nat n)) as [Hm|Hm]; cbn [andb].
        - rewrite <- Hj. now apply Hin.
        - symmetry. now apply (inr_high n j). }
      now rewrite E.
    - intros H. rewrite <- H, actr_actf. apply lowpart_inr0.
  Qed.

  Lemma eq_setlow_hi x i : inr n x -> N.eqb (actf nq c x) (setlow n i x) = N.eqb (simonF x) (hi i).
  Proof.
    intros Hxx. apply eq_true_iff_eq. rewrite !N.eqb_eq. unfold simonF, hi. split.
    - intros ->. apply N.bits_inj. intros m. rewrite !N.shiftr_spec', setlow_bits.
      destruct (N.ltb_spec (m + N.of_nat n) (N.of_nat n)); [lia|reflexivity].
    - intros H. apply N.bits_inj. intros m. rewrite setlow_bits.
      destruct (N.ltb_spec m (N.of_nat n)) as [Hm|Hm]; [now apply Hin|].
      assert (Hb : N.testbit (N.shiftr (actf nq c x) (N.of_nat n)) (m - N.of_nat n) =
                   N.testbit (N.shiftr i (N.of_nat n)) (m - N.of_nat n)) by now rewrite H.
      rewrite !N.shiftr_spec' in Hb. now replace (m - N.of_nat n + N.of_nat n) with m in Hb by lia.
  Qed.

  (* amplitude of the basis state i after Simon's circuit (denominator sqrt(2)^(2n)) *)
  Theorem simon_amplitudes :
    exists psi, run_ref nq (simon_circuit n c) (delta0, 0%nat) = Some (psi, (2 * n)%nat) /\
      forall i, psi i = sumN n (fun x => sgn (dotb n x i) (if N.eqb (simonF x) (hi i) then 1%Z else 0%Z)).
  Proof.
    unfold simon_circuit. cbn [app]. rewrite run_ref_bar, run_ref_app, run_ref_hlayer by lia.
    cbn [app]. rewrite run_ref_bar, run_ref_app.
    destruct (run_ref_classical nq c Hx (hlayer n delta0) (0 + n)%nat) as (psi2 & Hr & H2). rewrite Hr.
    cbn [app]. rewrite run_ref_bar, run_ref_hlayer by lia.
    eexists. split; [do 2 f_equal; lia|]. intros i. rewrite hlayer_WH. unfold WH.
    apply sumN_ext. intros x Hxx. f_equal.
    rewrite H2, hlayer_delta0, image_test, lowpart_setlow by exact Hxx. now rewrite eq_setlow_hi.
  Qed.

  Variable s : N.
  Hypothesis Hs : inr n s.

  (* F has period s  =>  every outcome of non-zero amplitude is orthogonal to s *)
  Theorem simon_orthogonal : (forall x, inr n x -> simonF (N.lxor x s) = simonF x) ->
    exists psi, run_ref nq (simon_circuit n c) (delta0, 0%nat) = Some (psi, (2 * n)%nat) /\
      forall i, psi i <> 0%Z -> dotb n s i = false.
  Proof.
    intros Hper. destruct simon_amplitudes as (psi & Hr & Hp). exists psi. split; [exact Hr|].
    intros i Hnz. destruct (dotb n s i) eqn:E; [|reflexivity]. exfalso. apply Hnz.
    rewrite Hp. set (g := fun x => sgn (dotb n x i) (if N.eqb (simonF x) (hi i) then 1%Z else 0%Z)).
    pose proof (sumN_lxor n s g Hs) as Hre.
    rewrite (sumN_ext n (fun x => g (N.lxor x s)) (fun x => (- g x)%Z)) in Hre.
    - rewrite sumN_opp in Hre. fold g. lia.
    - intros x Hxx. unfold g. rewrite Hper by exact Hxx. rewrite dotb_lxor_l, E.
      destruct (dotb n x i), (N.eqb (simonF x) (hi i)); reflexivity.
  Qed.

  (* F two-to-one with period s  =>  for outcomes orthogonal to s the squared amplitude
     of a basis state depends only on its non-search part: all y with y.s = 0 are
     equally likely (equal term by term over the rest of the register) *)
  Theorem simon_uniform : s <> 0 ->
    (forall x x', inr n x -> inr n x' -> (simonF x = simonF x' <-> x' = x \/ x' = N.lxor x s)) ->
    exists psi, run_ref nq (simon_circuit n c) (delta0, 0%nat) = Some (psi, (2 * n)%nat) /\
      forall i i', dotb n s i = false -> dotb n s i' = false -> hi i = hi i' ->
        (psi i * psi i = psi i' * psi i')%Z.
  Proof.
    intros Hs0 H21. destruct simon_amplitudes as (psi & Hr & Hp). exists psi. split; [exact Hr|].
    assert (Key : forall i, dotb n s i = false ->
      ((psi i * psi i)%Z = 0%Z /\ (forall x, inr n x -> N.eqb (simonF x) (hi i) = false)) \/
      ((psi i * psi i)%Z = 4%Z /\ (exists x, inr n x /\ N.eqb (simonF x) (hi i) = true))).
    { intros i Hi. rewrite Hp. destruct (bsearch n (fun x => N.eqb (simonF x) (hi i))) as [Hno|(x0 & Hx0 & Hf0)].
      - left. split; [|exact Hno]. rewrite (sumN_ext n _ (fun _ => 0%Z)), sumN_zero; [reflexivity|].
        intros x Hxx. rewrite (Hno x Hxx). apply sgn_0.
      - right. split; [|now exists x0]. apply N.eqb_eq in Hf0. set (x1 := N.lxor x0 s).
        assert (Hx1 : inr n x1) by now apply inr_lxor.
        assert (Hne : x0 <> x1).
        { unfold x1. intros E. apply Hs0. apply (f_equal (N.lxor x0)) in E.
          rewrite <- N.lxor_assoc, N.lxor_nilpotent, N.lxor_0_l in E. now symmetry. }
        rewrite (sumN_ext n _ (fun x => ((if N.eqb x x0 then sgn (dotb n x i) 1 else 0) + (if N.eqb x x1 then sgn (dotb n x i) 1 else 0))%Z)).
        + rewrite sumN_add, (sumN_single n x0 (fun x => sgn (dotb n x i) 1%Z) Hx0), (sumN_single n x1 (fun x => sgn (dotb n x i) 1%Z) Hx1).
          unfold x1. rewrite dotb_lxor_l, Hi, xorb_false_r. destruct (dotb n x0 i); reflexivity.
        + intros x Hxx. destruct (N.eqb_spec x x0) as [->|N0].
          * rewrite Hf0, N.eqb_refl. destruct (N.eqb_spec x0 x1); [congruence|]. destruct (dotb n x0 i); reflexivity.
          * destruct (N.eqb_spec x x1) as [->|N1].
            -- assert (E : simonF x1 = hi i) by (rewrite <- Hf0; symmetry; apply (H21 x0 x1 Hx0 Hx1); now right).
               rewrite E, N.eqb_refl. destruct (dotb n x1 i); reflexivity.
            -- destruct (N.eqb_spec (simonF x) (hi i)) as [E|_]; [|apply sgn_0].
               exfalso. rewrite <- Hf0 in E. symmetry in E. apply (H21 x0 x Hx0 Hxx) in E as [E|E]; [now apply N0|now apply N1]. }
    intros i i' Hi Hi' Hh.
    destruct (Key i Hi) as [[E1 Hno]|[E1 (x0 & Hx0 & Hf0)]], (Key i' Hi') as [[E2 Hno']|[E2 (x0' & Hx0' & Hf0')]];
      rewrite E1, E2; try reflexivity; exfalso.
    - rewrite <- Hh in Hf0'. rewrite (Hno x0' Hx0') in Hf0'. discriminate.
    - rewrite Hh in Hf0. rewrite (Hno' x0 Hx0) in Hf0. discriminate.
  Qed.
End Simon.

(* ================================================================== *)
(* F. Grover                                                           *)
(* ================================================================== *)
(* ---- a gate list valid on nq qubits is the same thing on nq + 1 qubits ---- *)
Lemma qs_ok_mono nq qs : qs_ok nq qs = true -> qs_ok (S nq) qs = true.
Proof.
  unfold qs_ok. rewrite !andb_true_iff, !forallb_forall. intros [H1 H2]. split; [|exact H2].
  intros q Hq. specialize (H1 q Hq). apply Nat.ltb_lt in H1. apply Nat.ltb_lt. lia.
Qed.
Lemma aact_of_mono nq g : aact_of nq g <> ANone -> aact_of (S nq) g = aact_of nq g.
Proof.
  unfold aact_of. destruct (qs_ok nq (gqs g)) eqn:E; cbn [negb]; [|congruence].
  now rewrite (qs_ok_mono nq _ E).
Qed.
Lemma run_ref_mono nq c : xonly nq c = true -> forall s, run_ref (S nq) c s = run_ref nq c s.
Proof.
  induction c as [|g c IH]; intros Hx s; [reflexivity|]. cbn [run_ref].
  cbn [xonly forallb] in Hx. apply andb_true_iff in Hx as [Hg Hc]. fold (xonly nq c) in Hc.
  rewrite aact_of_mono by (intros E; rewrite E in Hg; discriminate).
  destruct (ref_step (aact_of nq g) s); [now apply IH|reflexivity].
Qed.

Lemma aact_AX_lt nq g cs t : aact_of nq g = AX cs t ->
  t < N.of_nat nq /\ forall q, In q cs -> q < N.of_nat nq.
Proof.
  unfold aact_of. destruct (qs_ok nq (gqs g)) eqn:Hok; cbn [negb]; [|discriminate].
  apply qs_ok_spec in Hok as [Hlt _].
  destruct (cact_of g) as [cs' t'| |] eqn:Ec.
  - intros H. injection H as <- <-. pose proof Ec as Ec'. apply cact_of_flip in Ec' as [-> ->]. split.
    + assert (In (last (gqs g) 0%nat) (gqs g)).
      { apply in_last. intros Hnil. unfold cact_of in Ec. rewrite Hnil in Ec.
        destruct (gkind g) as [b| | | | |k|b k| |]; try destruct b; cbn in Ec; discriminate. }
      apply Hlt in H. lia.
    + intros q Hq. unfold nN in Hq. apply in_map_iff in Hq as (q' & <- & Hq'). apply in_removelast, Hlt in Hq'. lia.
  - discriminate.
  - destruct (gkind g) as [b| | | | |k|b k| |]; try destruct b; try discriminate;
      destruct (gqs g) as [|? [|? [|? ?]]]; try discriminate;
      match goal with |- (if ?c then _ else _) = _ -> _ => destruct c end; discriminate.
Qed.

Lemma forallb_ext_mem {X} (f g : X -> bool) l : (forall x, In x l -> f x = g x) -> forallb f l = forallb g l.
Proof.
  induction l as [|x r IH]; intros H; cbn [forallb]; [reflexivity|].
  rewrite (H x) by now left. f_equal. apply IH. intros y Hy. apply H. now right.
Qed.

(* ---- the oracle inside a larger register: qubits >= nq ride along ---- *)
Section OracleHi.
  Variables (n nq : nat) (c : circuit) (ds : defs) (ret out : nat).
  Hypothesis Hout : (n <= out < nq)%nat.
  Hypothesis Hx : xonly nq c = true.
  Hypothesis H06 : c06_holds n nq c ds ret out.

  Definition lpq (i : N) : N := N.land i (N.ones (N.of_nat nq)).
  Definition hpq (i : N) : N := N.ldiff i (N.ones (N.of_nat nq)).
  (* qubits n..nq-1 other than the output qubit are zero; qubits >= nq arbitrary *)
  Definition cleanq (i : N) : bool := cleanb n out (lpq i).

  Lemma lpq_bits i j : N.testbit (lpq i) j = (j <? N.of_nat nq) && N.testbit i j.
  Proof.
    unfold lpq. rewrite N.land_spec. destruct (N.ltb_spec j (N.of_nat nq)) as [H|H].
    - rewrite N.ones_spec_low by exact H. apply andb_true_r.
    - rewrite N.ones_spec_high by exact H. apply andb_false_r.
  Qed.
  Lemma hpq_bits i j : N.testbit (hpq i) j = negb (j <? N.of_nat nq) && N.testbit i j.
  Proof.
    unfold hpq. rewrite N.ldiff_spec. destruct (N.ltb_spec j (N.of_nat nq)) as [H|H].
    - rewrite N.ones_spec_low by exact H. apply andb_false_r.
    - rewrite N.ones_spec_high by exact H. apply andb_true_r.
  Qed.

  Lemma xperm_lpq cs t i : t < N.of_nat nq -> (forall q, In q cs -> q < N.of_nat nq) ->
    lpq (xperm cs t i) = xperm cs t (lpq i) /\ hpq (xperm cs t i) = hpq i.
  Proof.
    intros Ht Hcs. unfold xperm.
    assert (E : ctl cs (lpq i) = ctl cs i).
    { unfold ctl. apply forallb_ext_mem. intros q Hq. rewrite lpq_bits. apply Hcs, N.ltb_lt in Hq. now rewrite Hq. }
    rewrite E. destruct (ctl cs i); [|now split]. split; apply N.bits_inj; intros j.
    - rewrite lpq_bits, !flipq_bits, lpq_bits. destruct (N.ltb_spec j (N.of_nat nq)) as [H|H]; [reflexivity|].
      cbn [andb]. destruct (N.eqb_spec t j); [lia|reflexivity].
    - rewrite !hpq_bits, flipq_bits. destruct (N.ltb_spec j (N.of_nat nq)) as [H|H]; [reflexivity|].
      cbn [negb andb]. destruct (N.eqb_spec t j); [lia|apply xorb_false_r].
  Qed.

  Lemma actf_split : forall i, actf nq c i = N.lor (actf nq c (lpq i)) (hpq i).
  Proof.
    clear Hx H06. induction c as [|g c' IH]; intros i; cbn [actf].
    - apply N.bits_inj. intros j. rewrite N.lor_spec, lpq_bits, hpq_bits. now destruct (j <? N.of_nat nq), (N.testbit i j).
    - destruct (aact_of nq g) as [cs t| | | | |] eqn:Ea; try apply IH.
      destruct (aact_AX_lt nq g cs t Ea) as [Ht Hcs]. destruct (xperm_lpq cs t i Ht Hcs) as [E1 E2].
      rewrite IH, E1, E2. reflexivity.
  Qed.

  Lemma lowpart_lpq i : lowpart n (lpq i) = lowpart n i.
  Proof.
    apply N.bits_inj. intros j. rewrite !lowpart_bits, lpq_bits.
    destruct (N.ltb_spec j (N.of_nat n)) as [H|H]; [|reflexivity]. cbn [andb].
    destruct (N.ltb_spec j (N.of_nat nq)); [reflexivity|lia].
  Qed.

  Lemma omap_split i : omap n ds ret out i = N.lor (omap n ds ret out (lpq i)) (hpq i).
  Proof.
    unfold omap. rewrite lowpart_lpq. apply N.bits_inj. intros j.
    destruct (ofun ds ret (lowpart n i)); rewrite N.lor_spec, ?flipq_bits, lpq_bits, hpq_bits.
    - destruct (N.ltb_spec j (N.of_nat nq)) as [H|H]; cbn [negb andb]; [now rewrite orb_false_r|].
      destruct (N.eqb_spec (N.of_nat out) j); [lia|now rewrite xorb_false_r].
    - now destruct (j <? N.of_nat nq), (N.testbit i j).
  Qed.

  Lemma lpq_omap i : lpq (omap n ds ret out i) = omap n ds ret out (lpq i).
  Proof.
    unfold omap. rewrite lowpart_lpq. destruct (ofun ds ret (lowpart n i)); [|reflexivity].
    apply N.bits_inj. intros j. rewrite lpq_bits, !flipq_bits, lpq_bits.
    destruct (N.ltb_spec j (N.of_nat nq)) as [H|H]; [reflexivity|]. cbn [andb].
    destruct (N.eqb_spec (N.of_nat out) j); [lia|reflexivity].
  Qed.

  Lemma actf_cleanq i : cleanq i = true -> actf nq c i = omap n ds ret out i.
  Proof.
    intros Hc. rewrite actf_split, omap_split. f_equal.
    now apply (actf_clean n nq c ds ret out Hout Hx H06).
  Qed.
  Lemma omap_cleanq i : cleanq (omap n ds ret out i) = cleanq i.
  Proof. unfold cleanq. rewrite lpq_omap. apply omap_clean. Qed.
  Lemma actr_cleanq i : cleanq i = true -> actr nq c i = omap n ds ret out i.
  Proof.
    intros Hc. rewrite <- (omap_invol n nq ds ret out Hout i) at 1.
    rewrite <- (actf_cleanq (omap n ds ret out i)) by (now rewrite omap_cleanq). apply actr_actf.
  Qed.
  Lemma actr_dirtyq i : cleanq i = false -> cleanq (actr nq c i) = false.
  Proof.
    intros Hc. destruct (cleanq (actr nq c i)) eqn:E; [|reflexivity].
    pose proof (actf_cleanq _ E) as H. rewrite actf_actr in H.
    rewrite H, omap_cleanq, E in Hc. discriminate.
  Qed.

  (* KEY LEMMA, with spectator qubits: in a register of any size the oracle circuit
     acts as (x, y, 0, rest) |-> (x, y xor f x, 0, rest) and keeps dirty states dirty *)
  Theorem oracle_action_hi psi k :
    exists psi', run_ref (S nq) c (psi, k) = Some (psi', k) /\
      (forall i, cleanq i = true -> psi' i = psi (omap n ds ret out i)) /\
      (forall i, cleanq i = false -> exists j, cleanq j = false /\ psi' i = psi j).
  Proof.
    rewrite run_ref_mono by exact Hx.
    destruct (run_ref_classical nq c Hx psi k) as (psi' & Hr & Hp). exists psi'. split; [exact Hr|]. split.
    - intros i Hc. now rewrite Hp, actr_cleanq.
    - intros i Hc. exists (actr nq c i). split; [now apply actr_dirtyq|apply Hp].
  Qed.
End OracleHi.

(* ---- the abstract Grover iteration on the canonical layout ----
   canonical register: search bits 0..n-1, phase qubit at n, `_ret` at n+1.
   These state transformers mention only n and the predicate f. *)
Fixpoint hx_l (m : nat) (psi : N -> Z) : N -> Z :=   (* H q ; X q  for q = 0 .. m-1 *)
  match m with O => psi | S m' => refX [] (N.of_nat m') (refH (N.of_nat m') (hx_l m' psi)) end.
Fixpoint xh_l (m : nat) (psi : N -> Z) : N -> Z :=   (* X q ; H q  for q = 0 .. m-1 *)
  match m with O => psi | S m' => refH (N.of_nat m') (refX [] (N.of_nat m') (xh_l m' psi)) end.
(* the diffuser exactly as coded, with the phase qubit at index p *)
Definition diff_l (n : nat) (p : N) (psi : N -> Z) : N -> Z :=
  refH p (refX [] p (xh_l n (refZ (nN (seq 0 n) ++ [p]) (refX [] p (refH p (hx_l n psi)))))).
(* (x, p, r) |-> (x, p, r xor f x) on the canonical layout *)
Definition abs_or (n : nat) (f : N -> bool) (alpha : N -> Z) : N -> Z :=
  fun a => alpha (if f (lowpart n a) then flipq (N.of_nat (S n)) a else a).
Definition gstep (n : nat) (f : N -> bool) (alpha : N -> Z) : N -> Z :=
  diff_l n (N.of_nat n) (refZ [N.of_nat (S n); N.of_nat n] (abs_or n f alpha)).
Fixpoint giter (k : nat) (n : nat) (f : N -> bool) (alpha : N -> Z) : N -> Z :=
  match k with O => alpha | S k' => giter k' n f (gstep n f alpha) end.
(* the abstract Grover state after the whole circuit (repeat(iters): at least one copy) *)
Definition gabs (n : nat) (f : N -> bool) (iters : nat) : N -> Z :=
  giter (S (iters - 1)) n f (refH (N.of_nat n) (hlayer n delta0)).

(* extensionality of the transformers *)
Lemma refX_ext cs t psi phi i : (forall j, psi j = phi j) -> refX cs t psi i = refX cs t phi i.
Proof. intros H. apply H. Qed.
Lemma refZ_ext qs psi phi i : (forall j, psi j = phi j) -> refZ qs psi i = refZ qs phi i.
Proof. intros H. unfold refZ. now rewrite H. Qed.
Lemma hx_l_ext m : forall psi phi i, (forall j, psi j = phi j) -> hx_l m psi i = hx_l m phi i.
Proof.
  induction m as [|m IH]; intros psi phi i H; cbn [hx_l]; [apply H|].
  apply refX_ext. intros j. apply refH_ext. intros j'. now apply IH.
Qed.
Lemma xh_l_ext m : forall psi phi i, (forall j, psi j = phi j) -> xh_l m psi i = xh_l m phi i.
Proof.
  induction m as [|m IH]; intros psi phi i H; cbn [xh_l]; [apply H|].
  apply refH_ext. intros j. apply refX_ext. intros j'. now apply IH.
Qed.
Lemma diff_l_ext n p psi phi i : (forall j, psi j = phi j) -> diff_l n p psi i = diff_l n p phi i.
Proof.
  intros H. unfold diff_l. apply refH_ext. intros j1. apply refX_ext. intros j2. apply xh_l_ext. intros j3.
  apply refZ_ext. intros j4. apply refX_ext. intros j5. apply refH_ext. intros j6. now apply hx_l_ext.
Qed.
Lemma abs_or_ext n f g alpha beta a :
  (forall x, inr n x -> f x = g x) -> (forall j, alpha j = beta j) -> abs_or n f alpha a = abs_or n g beta a.
Proof. intros Hf Ha. unfold abs_or. rewrite (Hf (lowpart n a)) by apply lowpart_inr0. apply Ha. Qed.
Lemma gstep_ext n f g alpha beta a :
  (forall x, inr n x -> f x = g x) -> (forall j, alpha j = beta j) -> gstep n f alpha a = gstep n g beta a.
Proof.
  intros Hf Ha. unfold gstep. apply diff_l_ext. intros j. apply refZ_ext. intros j'. now apply abs_or_ext.
Qed.
Lemma giter_ext k n f g : (forall x, inr n x -> f x = g x) ->
  forall alpha beta a, (forall j, alpha j = beta j) -> giter k n f alpha a = giter k n g beta a.
Proof.
  intros Hf. induction k as [|k IH]; intros alpha beta a Ha; cbn [giter]; [apply Ha|].
  apply IH. intros j. now apply gstep_ext.
Qed.
(* the abstract state depends only on the predicate *)
Lemma gabs_ext n f g iters a : (forall x, inr n x -> f x = g x) -> gabs n f iters a = gabs n g iters a.
Proof. intros Hf. unfold gabs. now apply giter_ext. Qed.

(* ---- gate lists of the construction as transformers ---- *)
Lemma nodupb_complete l : NoDup l -> nodupb l = true.
Proof.
  induction 1 as [|x l Hx Hn IH]; [reflexivity|]. cbn [nodupb]. rewrite IH, andb_true_r.
  apply negb_true_iff. destruct (existsb (Nat.eqb x) l) eqn:E; [|reflexivity].
  apply existsb_eqb_in in E. contradiction.
Qed.

Lemma aact_gMCZ NQ cs t : (forall q, In q (cs ++ [t]) -> (q < NQ)%nat) -> NoDup (cs ++ [t]) ->
  aact_of NQ (gMCZ cs t) = AZ (nN (cs ++ [t])).
Proof.
  intros Hlt Hnd. unfold aact_of, gMCZ. cbn [gqs gkind].
  assert (Hok : qs_ok NQ (cs ++ [t]) = true).
  { unfold qs_ok. rewrite (nodupb_complete _ Hnd), andb_true_r. apply forallb_forall. intros q Hq. apply Nat.ltb_lt. now apply Hlt. }
  rewrite Hok. cbn [negb]. unfold cact_of. cbn [gkind x_controls gqs].
  rewrite app_length. cbn [length]. rewrite Nat.add_1_r, Nat.eqb_refl. reflexivity.
Qed.

Lemma run_ref_hx NQ m : (m <= NQ)%nat -> forall psi k,
  run_ref NQ (flat_map (fun i => [gH i; gX i]) (seq 0 m)) (psi, k) = Some (hx_l m psi, (k + m)%nat).
Proof.
  induction m as [|m IH]; intros Hm psi k.
  - cbn. now rewrite Nat.add_0_r.
  - rewrite seq_S, flat_map_app, run_ref_app, IH by lia. cbn [flat_map app Nat.add].
    rewrite run_ref_H, run_ref_X by lia. cbn [run_ref hx_l]. now rewrite Nat.add_succ_r.
Qed.
Lemma run_ref_xh NQ m : (m <= NQ)%nat -> forall psi k,
  run_ref NQ (flat_map (fun i => [gX i; gH i]) (seq 0 m)) (psi, k) = Some (xh_l m psi, (k + m)%nat).
Proof.
  induction m as [|m IH]; intros Hm psi k.
  - cbn. now rewrite Nat.add_0_r.
  - rewrite seq_S, flat_map_app, run_ref_app, IH by lia. cbn [flat_map app Nat.add].
    rewrite run_ref_X, run_ref_H by lia. cbn [run_ref xh_l]. now rewrite Nat.add_succ_r.
Qed.

Lemma NoDup_snoc (l : list nat) p : NoDup l -> ~ In p l -> NoDup (l ++ [p]).
Proof.
  induction l as [|x l IH]; intros Hn Hp; cbn [app]; [repeat constructor; intros []|].
  inversion Hn as [|? ? Hx Hl]; subst. constructor.
  - intros H. apply in_app_or in H as [H|[H|[]]]; [contradiction|]. apply Hp. now left.
  - apply IH; [exact Hl|]. intros H. apply Hp. now right.
Qed.
Lemma NoDup_seq_app n p : (n <= p)%nat -> NoDup (seq 0 n ++ [p]).
Proof. intros H. apply NoDup_snoc; [apply seq_NoDup|]. rewrite in_seq. lia. Qed.

(* the diffuser's gate list *)
Lemma run_ref_diffuser NQ n p : (n <= p < NQ)%nat -> forall psi k,
  run_ref NQ (grover_diffuser n p) (psi, k) = Some (diff_l n (N.of_nat p) psi, (k + (2 * n + 2))%nat).
Proof.
  intros Hp psi k. unfold grover_diffuser.
  rewrite run_ref_app, run_ref_hx by lia. cbn [app].
  rewrite run_ref_H, run_ref_X by lia. cbn [run_ref].
  rewrite aact_gMCZ; [|intros q Hq; apply in_app_or in Hq as [Hq|[<-|[]]]; [apply in_seq in Hq|]; lia|apply NoDup_seq_app; lia].
  cbn [ref_step fst snd]. fold (run_ref NQ). rewrite run_ref_app, run_ref_xh by lia. cbn [app].
  rewrite run_ref_X, run_ref_H by lia. cbn [run_ref]. unfold diff_l, nN. rewrite map_app. cbn [map].
  do 2 f_equal. lia.
Qed.

(* ---- simulation: the concrete register (oracle scratch qubits, `_ret` at out,
   phase qubit at nq) against the canonical one ---- *)
Ltac bash :=
  repeat match goal with
  | |- context [N.ltb ?a ?b] => destruct (N.ltb_spec a b)
  | |- context [N.eqb ?a ?b] => destruct (N.eqb_spec a b)
  end; try lia; cbn [orb andb negb xorb];
  rewrite ?orb_false_r, ?orb_true_r, ?andb_false_r, ?andb_true_r, ?xorb_false_r, ?N.bits_0;
  try reflexivity; try (repeat match goal with H : ?j = _ |- _ => subst j end; reflexivity).

Section GroverSim.
  Variables (n nq : nat) (c : circuit) (ds : defs) (ret out : nat).
  Hypothesis Hout : (n <= out < nq)%nat.
  Hypothesis Hx : xonly nq c = true.
  Hypothesis H06 : c06_holds n nq c ds ret out.
  Local Notation pN := (N.of_nat nq).
  Local Notation oN := (N.of_nat out).
  Local Notation aP := (N.of_nat n).
  Local Notation aR := (N.of_nat (S n)).
  Let f := ofun ds ret.

  Definition mask3 : N := N.lor (N.ones aP) (N.lor (bitm oN) (bitm pN)).
  (* only search register, `_ret` and phase qubit may be non-zero *)
  Definition clean3 (i : N) : bool := N.eqb (N.ldiff i mask3) 0.
  (* the canonical index of a concrete index *)
  Definition canon (i : N) : N :=
    N.lor (lowpart n i) (N.lor (if N.testbit i pN then bitm aP else 0) (if N.testbit i oN then bitm aR else 0)).
  Definition Rel (alpha psi : N -> Z) : Prop := forall i, psi i = if clean3 i then alpha (canon i) else 0%Z.

  Lemma mask3_bits j : N.testbit mask3 j = (j <? aP) || (N.eqb oN j) || (N.eqb pN j).
  Proof.
    unfold mask3. rewrite !N.lor_spec, !bitm_pow, !N.pow2_bits_eqb.
    destruct (N.ltb_spec j aP) as [H|H]; [now rewrite N.ones_spec_low|rewrite N.ones_spec_high by exact H].
    now rewrite orb_assoc.
  Qed.
  Lemma canon_bits i j : N.testbit (canon i) j =
    if j <? aP then N.testbit i j else if N.eqb j aP then N.testbit i pN else if N.eqb j aR then N.testbit i oN else false.
  Proof.
    unfold canon. rewrite !N.lor_spec, lowpart_bits.
    destruct (N.testbit i pN), (N.testbit i oN); rewrite ?bitm_pow, ?N.pow2_bits_eqb, ?N.bits_0; bash.
  Qed.

  Inductive qcorr : N -> N -> Prop :=
  | qc_search q : q < aP -> qcorr q q
  | qc_phase : qcorr pN aP
  | qc_ret : qcorr oN aR.

  Lemma qcorr_mask qc qa : qcorr qc qa -> N.testbit mask3 qc = true.
  Proof. intros H. rewrite mask3_bits. destruct H; bash. Qed.
  Lemma canon_testbit qc qa i : qcorr qc qa -> N.testbit (canon i) qa = N.testbit i qc.
  Proof. intros H. rewrite canon_bits. destruct H; bash. Qed.

  Lemma clean3_mask_ext i i' : (forall j, N.testbit mask3 j = false -> N.testbit i j = N.testbit i' j) -> clean3 i = clean3 i'.
  Proof.
    intros H. unfold clean3. f_equal. apply N.bits_inj. intros j. rewrite !N.ldiff_spec.
    destruct (N.testbit mask3 j) eqn:E; [now rewrite !andb_false_r|]. now rewrite H.
  Qed.
  Lemma clean3_setbit qc qa i : qcorr qc qa -> clean3 (N.setbit i qc) = clean3 i.
  Proof.
    intros H. apply clean3_mask_ext. intros j Hj. rewrite N.setbit_eqb.
    destruct (N.eqb_spec qc j) as [<-|_]; [rewrite (qcorr_mask _ _ H) in Hj; discriminate|reflexivity].
  Qed.
  Lemma clean3_clearbit qc qa i : qcorr qc qa -> clean3 (N.clearbit i qc) = clean3 i.
  Proof.
    intros H. apply clean3_mask_ext. intros j Hj. rewrite N.clearbit_eqb.
    destruct (N.eqb_spec qc j) as [<-|_]; [rewrite (qcorr_mask _ _ H) in Hj; discriminate|apply andb_true_r].
  Qed.
  Lemma clean3_flipq qc qa i : qcorr qc qa -> clean3 (flipq qc i) = clean3 i.
  Proof.
    intros H. apply clean3_mask_ext. intros j Hj. rewrite flipq_bits.
    destruct (N.eqb_spec qc j) as [<-|_]; [rewrite (qcorr_mask _ _ H) in Hj; discriminate|apply xorb_false_r].
  Qed.

  Lemma canon_setbit qc qa i : qcorr qc qa -> canon (N.setbit i qc) = N.setbit (canon i) qa.
  Proof.
    intros H. apply N.bits_inj. intros j. rewrite N.setbit_eqb, !canon_bits, !N.setbit_eqb. destruct H; bash.
  Qed.
  Lemma canon_clearbit qc qa i : qcorr qc qa -> canon (N.clearbit i qc) = N.clearbit (canon i) qa.
  Proof.
    intros H. apply N.bits_inj. intros j. rewrite N.clearbit_eqb, !canon_bits, !N.clearbit_eqb. destruct H; bash.
  Qed.
  Lemma canon_flipq qc qa i : qcorr qc qa -> canon (flipq qc i) = flipq qa (canon i).
  Proof.
    intros H. apply N.bits_inj. intros j. rewrite flipq_bits, !canon_bits, !flipq_bits. destruct H; bash.
  Qed.

  Lemma Rel_H qc qa alpha psi : qcorr qc qa -> Rel alpha psi -> Rel (refH qa alpha) (refH qc psi).
  Proof.
    intros Hq H i. unfold refH. rewrite !H.
    rewrite (clean3_clearbit qc qa), (clean3_setbit qc qa), (canon_clearbit qc qa), (canon_setbit qc qa), (canon_testbit qc qa) by exact Hq.
    destruct (clean3 i), (N.testbit i qc); reflexivity.
  Qed.
  Lemma Rel_X qc qa alpha psi : qcorr qc qa -> Rel alpha psi -> Rel (refX [] qa alpha) (refX [] qc psi).
  Proof.
    intros Hq H i. unfold refX, xperm. cbn [ctl forallb]. rewrite H.
    now rewrite (clean3_flipq qc qa), (canon_flipq qc qa) by exact Hq.
  Qed.
  Lemma ctl_corr qcs qas i : Forall2 qcorr qcs qas -> ctl qas (canon i) = ctl qcs i.
  Proof.
    unfold ctl. induction 1 as [|qc qa qcs qas Hq _ IH]; cbn [forallb]; [reflexivity|].
    now rewrite IH, (canon_testbit qc qa).
  Qed.
  Lemma Rel_Z qcs qas alpha psi : Forall2 qcorr qcs qas -> Rel alpha psi -> Rel (refZ qas alpha) (refZ qcs psi).
  Proof.
    intros Hq H i. unfold refZ. rewrite H, (ctl_corr qcs qas i Hq).
    destruct (clean3 i), (ctl qcs i); reflexivity.
  Qed.

  Lemma clean3_spec i : clean3 i = true <-> (forall j, N.testbit i j = true -> N.testbit mask3 j = true).
  Proof.
    unfold clean3. rewrite N.eqb_eq. split.
    - intros H j Hj. assert (Hb : N.testbit (N.ldiff i mask3) j = false) by (rewrite H; apply N.bits_0).
      rewrite N.ldiff_spec, Hj in Hb. cbn [andb] in Hb. now apply negb_false_iff in Hb.
    - intros H. apply N.bits_inj_0. intros j. rewrite N.ldiff_spec.
      destruct (N.testbit i j) eqn:Hj; [|reflexivity]. now rewrite (H j Hj).
  Qed.

  Lemma Rel_init : Rel delta0 delta0.
  Proof.
    intros i. unfold delta0. destruct (N.eqb_spec i 0) as [->|Hne].
    - assert (E : clean3 0 = true) by (apply clean3_spec; intros j; rewrite N.bits_0; discriminate).
      rewrite E. assert (E2 : canon 0 = 0) by (apply N.bits_inj_0; intros j; rewrite canon_bits, !N.bits_0; bash).
      now rewrite E2.
    - destruct (clean3 i) eqn:Ec; [|reflexivity]. destruct (N.eqb_spec (canon i) 0) as [E|_]; [|reflexivity].
      exfalso. apply Hne. apply N.bits_inj_0. intros j. destruct (N.testbit i j) eqn:Hj; [|reflexivity].
      pose proof (proj1 (clean3_spec i) Ec j Hj) as Hm. rewrite mask3_bits in Hm.
      assert (Hc : forall qa, N.testbit (canon i) qa = false) by (intros qa; rewrite E; apply N.bits_0).
      apply orb_true_iff in Hm as [Hm|Hm]; [apply orb_true_iff in Hm as [Hm|Hm]|].
      + apply N.ltb_lt in Hm. rewrite <- (canon_testbit j j i (qc_search j Hm)), Hc in Hj. discriminate.
      + apply N.eqb_eq in Hm. subst j. rewrite <- (canon_testbit _ _ i qc_ret), Hc in Hj. discriminate.
      + apply N.eqb_eq in Hm. subst j. rewrite <- (canon_testbit _ _ i qc_phase), Hc in Hj. discriminate.
  Qed.

  Lemma Rel_hlayer m : (m <= n)%nat -> forall alpha psi, Rel alpha psi -> Rel (hlayer m alpha) (hlayer m psi).
  Proof.
    induction m as [|m IH]; intros Hm alpha psi H; cbn [hlayer]; [exact H|].
    apply Rel_H; [apply qc_search; lia|apply IH; [lia|exact H]].
  Qed.
  Lemma Rel_hx m : (m <= n)%nat -> forall alpha psi, Rel alpha psi -> Rel (hx_l m alpha) (hx_l m psi).
  Proof.
    induction m as [|m IH]; intros Hm alpha psi H; cbn [hx_l]; [exact H|].
    apply Rel_X; [apply qc_search; lia|]. apply Rel_H; [apply qc_search; lia|apply IH; [lia|exact H]].
  Qed.
  Lemma Rel_xh m : (m <= n)%nat -> forall alpha psi, Rel alpha psi -> Rel (xh_l m alpha) (xh_l m psi).
  Proof.
    induction m as [|m IH]; intros Hm alpha psi H; cbn [xh_l]; [exact H|].
    apply Rel_H; [apply qc_search; lia|]. apply Rel_X; [apply qc_search; lia|apply IH; [lia|exact H]].
  Qed.

  Lemma corr_seq m : (m <= n)%nat -> Forall2 qcorr (nN (seq 0 m)) (nN (seq 0 m)).
  Proof.
    induction m as [|m IH]; intros Hm; [constructor|]. rewrite seq_S. unfold nN. rewrite map_app. cbn [map Nat.add].
    apply Forall2_app; [apply IH; lia|]. constructor; [apply qc_search; lia|constructor].
  Qed.

  Lemma Rel_diff alpha psi : Rel alpha psi -> Rel (diff_l n aP alpha) (diff_l n pN psi).
  Proof.
    intros H. unfold diff_l.
    apply Rel_H; [apply qc_phase|]. apply Rel_X; [apply qc_phase|]. apply Rel_xh; [lia|].
    apply Rel_Z; [apply Forall2_app; [apply corr_seq; lia|repeat constructor]|].
    apply Rel_X; [apply qc_phase|]. apply Rel_H; [apply qc_phase|]. now apply Rel_hx.
  Qed.

  (* the oracle block *)
  Lemma clean3_cleanq i : clean3 i = true -> cleanq n nq out i = true.
  Proof.
    intros H. unfold cleanq. apply cleanb_spec. intros j Hj. rewrite lpq_bits in Hj.
    apply andb_true_iff in Hj as [H1 H2]. apply N.ltb_lt in H1.
    pose proof (proj1 (clean3_spec i) H j H2) as Hm. rewrite mask3_bits in Hm.
    apply orb_true_iff in Hm as [Hm|Hm]; [apply orb_true_iff in Hm as [Hm|Hm]|].
    - left. now apply N.ltb_lt.
    - right. apply N.eqb_eq in Hm. now symmetry.
    - apply N.eqb_eq in Hm. lia.
  Qed.
  Lemma lowpart_canon i : lowpart n (canon i) = lowpart n i.
  Proof. apply N.bits_inj. intros j. rewrite !lowpart_bits, canon_bits. bash. Qed.

  Lemma Rel_oracle alpha psi k : Rel alpha psi ->
    exists psi', run_ref (S nq) c (psi, k) = Some (psi', k) /\ Rel (abs_or n f alpha) psi'.
  Proof.
    intros H. destruct (oracle_action_hi n nq c ds ret out Hout Hx H06 psi k) as (psi' & Hr & H1 & H2).
    exists psi'. split; [exact Hr|]. intros i.
    assert (Ecl : clean3 (omap n ds ret out i) = clean3 i).
    { unfold omap. destruct (ofun ds ret (lowpart n i)); [apply (clean3_flipq oN aR), qc_ret|reflexivity]. }
    destruct (clean3 i) eqn:Ec.
    - rewrite (H1 i (clean3_cleanq i Ec)), H, Ecl. unfold abs_or. rewrite lowpart_canon. f_equal.
      unfold omap. fold f. destruct (f (lowpart n i)); [apply (canon_flipq oN aR), qc_ret|reflexivity].
    - destruct (cleanq n nq out i) eqn:Eq.
      + rewrite (H1 i Eq), H, Ecl. reflexivity.
      + destruct (H2 i Eq) as (j & Hj & ->). rewrite H. destruct (clean3 j) eqn:Ej; [|reflexivity].
        rewrite (clean3_cleanq j Ej) in Hj. discriminate.
  Qed.

  (* one Grover iteration: oracle ; controlled Z from `_ret` onto the phase qubit ; diffuser *)
  Lemma Rel_step alpha psi k : Rel alpha psi ->
    exists psi', run_ref (S nq) (grover_oracle c out nq ++ grover_diffuser n nq) (psi, k)
                 = Some (psi', (k + (2 * n + 2))%nat) /\ Rel (gstep n f alpha) psi'.
  Proof.
    intros H. unfold grover_oracle. rewrite <- app_assoc, run_ref_app.
    destruct (Rel_oracle alpha psi k H) as (psi1 & Hr & H1). rewrite Hr. cbn [app run_ref].
    rewrite aact_gMCZ; [|intros q [<-|[<-|[]]]; lia|repeat constructor; [intros [E|[]]; lia|intros []]].
    cbn [ref_step fst snd]. fold (run_ref (S nq)). rewrite run_ref_diffuser by lia.
    eexists. split; [reflexivity|]. unfold gstep. apply Rel_diff.
    apply Rel_Z; [|exact H1]. cbn [nN map app]. repeat constructor.
  Qed.

  Lemma Rel_copies m : forall alpha psi k, Rel alpha psi ->
    exists psi', run_ref (S nq) (copies (grover_oracle c out nq ++ grover_diffuser n nq) m) (psi, k)
                 = Some (psi', (k + m * (2 * n + 2))%nat) /\ Rel (giter m n f alpha) psi'.
  Proof.
    induction m as [|m IH]; intros alpha psi k H; cbn [copies giter].
    - exists psi. split; [cbn; do 2 f_equal; lia|exact H].
    - rewrite run_ref_app. destruct (Rel_step alpha psi k H) as (psi1 & Hr & H1). rewrite Hr.
      destruct (IH _ psi1 (k + (2 * n + 2))%nat H1) as (psi2 & Hr2 & H2). exists psi2. split; [|exact H2].
      rewrite Hr2. do 2 f_equal. lia.
  Qed.

  (* the whole Grover circuit factors through the abstract oracle map: its final state
     is the abstract state gabs (a function of n, f and the iteration count only) read
     through the canonical re-indexing, and zero wherever a scratch qubit is non-zero *)
  Theorem grover_sim iters :
    exists psi, run_ref (S nq) (grover_circuit n nq out c iters) (delta0, 0%nat)
                = Some (psi, (n + 1 + S (iters - 1) * (2 * n + 2))%nat) /\ Rel (gabs n f iters) psi.
  Proof.
    unfold grover_circuit. rewrite run_ref_app, run_ref_hlayer by lia. cbn [app]. rewrite run_ref_H by lia.
    assert (H0 : Rel (refH aP (hlayer n delta0)) (refH pN (hlayer n delta0))).
    { apply Rel_H; [apply qc_phase|]. apply Rel_hlayer; [lia|apply Rel_init]. }
    unfold qc_repeat.
    change (?b ++ copies ?b (iters - 1)) with (copies b (S (iters - 1))).
    destruct (Rel_copies (S (iters - 1)) _ _ (S (0 + n)) H0) as (psi & Hr & H). exists psi. split; [|exact H].
    rewrite Hr. do 2 f_equal. lia.
  Qed.
End GroverSim.

(* ---- C15 (1): the Grover circuit depends only on the predicate ---- *)
(* the basis index holding x on the search register, r on `_ret`, p on the phase qubit *)
Definition enc (out nq : nat) (x : N) (r p : bool) : N :=
  N.lor x (N.lor (if r then bitm (N.of_nat out) else 0) (if p then bitm (N.of_nat nq) else 0)).

Lemma enc_bits out nq x r p j : N.testbit (enc out nq x r p) j =
  N.testbit x j || (r && N.eqb (N.of_nat out) j) || (p && N.eqb (N.of_nat nq) j).
Proof.
  unfold enc. rewrite !N.lor_spec. destruct r, p; rewrite ?bitm_pow, ?N.pow2_bits_eqb, ?N.bits_0; cbn [andb];
    destruct (N.testbit x j), (N.eqb (N.of_nat out) j), (N.eqb (N.of_nat nq) j); reflexivity.
Qed.

Lemma enc_clean3 n nq out x r p : (n <= out < nq)%nat -> inr n x -> clean3 n nq out (enc out nq x r p) = true.
Proof.
  intros Ho Hx. apply clean3_spec. intros j. rewrite enc_bits, mask3_bits. intros Hj.
  apply orb_true_iff in Hj as [Hj|Hj]; [apply orb_true_iff in Hj as [Hj|Hj]|].
  - assert (j < N.of_nat n). { destruct (N.lt_ge_cases j (N.of_nat n)) as [H|H]; [exact H|]. rewrite (inr_high n x j Hx H) in Hj. discriminate. }
    apply N.ltb_lt in H. now rewrite H.
  - apply andb_true_iff in Hj as [_ Hj]. now rewrite Hj, orb_true_r.
  - apply andb_true_iff in Hj as [_ Hj]. now rewrite Hj, orb_true_r.
Qed.

Lemma enc_canon n nq out x r p : (n <= out < nq)%nat -> inr n x ->
  canon n nq out (enc out nq x r p) = enc (S n) n x r p.
Proof.
  intros Ho Hx. apply N.bits_inj. intros j. rewrite canon_bits, !enc_bits; [|exact Ho].
  assert (Hh : forall m, N.of_nat n <= m -> N.testbit x m = false) by (intros m Hm; now apply (inr_high n x)).
  destruct r, p; cbn [andb]; rewrite ?orb_false_r; bash; rewrite ?Hh by lia; bash.
Qed.

Theorem grover_amplitudes n nq c ds ret out iters :
  (n <= out < nq)%nat -> xonly nq c = true -> c06_holds n nq c ds ret out ->
  exists psi, run_ref (S nq) (grover_circuit n nq out c iters) (delta0, 0%nat)
              = Some (psi, (n + 1 + S (iters - 1) * (2 * n + 2))%nat) /\
    (forall x r p, inr n x -> psi (enc out nq x r p) = gabs n (ofun ds ret) iters (enc (S n) n x r p)) /\
    (forall i, clean3 n nq out i = false -> psi i = 0%Z).
Proof.
  intros Ho Hx H06. destruct (grover_sim n nq c ds ret out Ho Hx H06 iters) as (psi & Hr & HR).
  exists psi. split; [exact Hr|]. split.
  - intros x r p Hxx. rewrite HR, enc_clean3, enc_canon by assumption. reflexivity.
  - intros i Hc. now rewrite HR, Hc.
Qed.

(* two oracle circuits that are clean xor-oracles for the same predicate (possibly with
   different scratch qubits and a different position of `_ret`) give the same amplitude on
   every (search register, `_ret`, phase) basis state and zero amplitude wherever a scratch
   qubit is non-zero; the denominators (number of H gates) agree as well *)
Theorem grover_depends_only_on_f n iters
        nq1 c1 ds1 ret1 out1 nq2 c2 ds2 ret2 out2 :
  (n <= out1 < nq1)%nat -> xonly nq1 c1 = true -> c06_holds n nq1 c1 ds1 ret1 out1 ->
  (n <= out2 < nq2)%nat -> xonly nq2 c2 = true -> c06_holds n nq2 c2 ds2 ret2 out2 ->
  (forall x, inr n x -> ofun ds1 ret1 x = ofun ds2 ret2 x) ->
  exists psi1 psi2 k,
    run_ref (S nq1) (grover_circuit n nq1 out1 c1 iters) (delta0, 0%nat) = Some (psi1, k) /\
    run_ref (S nq2) (grover_circuit n nq2 out2 c2 iters) (delta0, 0%nat) = Some (psi2, k) /\
    (forall x r p, inr n x -> psi1 (enc out1 nq1 x r p) = psi2 (enc out2 nq2 x r p)) /\
    (forall i, clean3 n nq1 out1 i = false -> psi1 i = 0%Z) /\
    (forall i, clean3 n nq2 out2 i = false -> psi2 i = 0%Z).
Proof.
  intros Ho1 Hx1 H1 Ho2 Hx2 H2 Hf.
  destruct (grover_amplitudes n nq1 c1 ds1 ret1 out1 iters Ho1 Hx1 H1) as (psi1 & Hr1 & Ha1 & Hz1).
  destruct (grover_amplitudes n nq2 c2 ds2 ret2 out2 iters Ho2 Hx2 H2) as (psi2 & Hr2 & Ha2 & Hz2).
  exists psi1, psi2, (n + 1 + S (iters - 1) * (2 * n + 2))%nat. repeat split; try assumption.
  intros x r p Hxx. rewrite Ha1, Ha2 by exact Hxx. now apply gabs_ext.
Qed.

(* ---- the diffuser as coded is a reflection (canonical layout) ----
   hx_l / xh_l apply H_q X_q (resp. X_q H_q) qubit after qubit; gates on different
   qubits commute, so the block is  H-layer ; X-layer ; MCZ ; X-layer ; H-layer, and
   X-layer ; MCZ ; X-layer is the sign flip Z0 of WH.v *)
Definition xall (m : nat) (phi : N -> Z) : N -> Z := fun i => phi (N.lxor i (N.ones (N.of_nat m))).

Lemma refX0 q phi i : refX [] q phi i = phi (flipq q i).
Proof. reflexivity. Qed.

Lemma ones_bits m j : N.testbit (N.ones m) j = (j <? m).
Proof. destruct (N.ltb_spec j m); [now apply N.ones_spec_low|now apply N.ones_spec_high]. Qed.

Lemma flipq_xall_idx m i : N.lxor (flipq (N.of_nat m) i) (N.ones (N.of_nat m)) = N.lxor i (N.ones (N.of_nat (S m))).
Proof.
  apply N.bits_inj. intros j. rewrite !N.lxor_spec, flipq_bits, !ones_bits.
  destruct (N.testbit i j); bash.
Qed.

Lemma refH_xall m phi i : refH (N.of_nat m) (xall m phi) i = xall m (refH (N.of_nat m) phi) i.
Proof.
  unfold refH, xall. rewrite N.lxor_spec, ones_bits.
  destruct (N.ltb_spec (N.of_nat m) (N.of_nat m)); [lia|]. rewrite xorb_false_r.
  assert (E1 : N.clearbit (N.lxor i (N.ones (N.of_nat m))) (N.of_nat m) = N.lxor (N.clearbit i (N.of_nat m)) (N.ones (N.of_nat m))).
  { apply N.bits_inj. intros j. rewrite N.clearbit_eqb, !N.lxor_spec, N.clearbit_eqb, ones_bits. destruct (N.testbit i j); bash. }
  assert (E2 : N.setbit (N.lxor i (N.ones (N.of_nat m))) (N.of_nat m) = N.lxor (N.setbit i (N.of_nat m)) (N.ones (N.of_nat m))).
  { apply N.bits_inj. intros j. rewrite N.setbit_eqb, !N.lxor_spec, N.setbit_eqb, ones_bits. destruct (N.testbit i j); bash. }
  now rewrite E1, E2.
Qed.

Lemma hx_xall m : forall psi i, hx_l m psi i = xall m (hlayer m psi) i.
Proof.
  induction m as [|m IH]; intros psi i.
  - cbn [hx_l hlayer]. unfold xall. now rewrite N.lxor_0_r.
  - cbn [hx_l hlayer]. rewrite refX0.
    rewrite (refH_ext (N.of_nat m) _ (xall m (hlayer m psi))) by (intros j; apply IH).
    rewrite refH_xall. unfold xall. now rewrite flipq_xall_idx.
Qed.

Lemma refH_flip_comm a q chi j : a <> q ->
  refH a (fun t => chi (flipq q t)) j = refH a chi (flipq q j).
Proof.
  intros H. unfold refH. rewrite flipq_bits.
  destruct (N.eqb_spec q a) as [E|_]; [congruence|]. rewrite xorb_false_r.
  assert (E1 : flipq q (N.clearbit j a) = N.clearbit (flipq q j) a).
  { apply N.bits_inj. intros t. rewrite flipq_bits, !N.clearbit_eqb, flipq_bits. destruct (N.testbit j t); bash. }
  assert (E2 : flipq q (N.setbit j a) = N.setbit (flipq q j) a).
  { apply N.bits_inj. intros t. rewrite flipq_bits, !N.setbit_eqb, flipq_bits. destruct (N.testbit j t); bash. }
  now rewrite E1, E2.
Qed.

Lemma hlayer_flip_comm m q : N.of_nat m <= q -> forall chi j,
  hlayer m (fun t => chi (flipq q t)) j = hlayer m chi (flipq q j).
Proof.
  intros Hq. induction m as [|m IH]; intros chi j; cbn [hlayer]; [reflexivity|].
  rewrite (refH_ext (N.of_nat m) _ (fun t => hlayer m chi (flipq q t))) by (intros t; apply IH; lia).
  apply refH_flip_comm. lia.
Qed.

Lemma xh_xall m : forall phi i, xh_l m phi i = hlayer m (xall m phi) i.
Proof.
  induction m as [|m IH]; intros phi i.
  - cbn [xh_l hlayer]. unfold xall. now rewrite N.lxor_0_r.
  - cbn [xh_l hlayer]. apply refH_ext. intros j. rewrite refX0, IH.
    rewrite <- (hlayer_flip_comm m (N.of_nat m)) by lia. apply hlayer_ext. intros t.
    unfold xall. now rewrite flipq_xall_idx.
Qed.

Lemma ctl_xall_lowz m : forall k i, (m <= k)%nat ->
  ctl (nN (seq 0 m)) (N.lxor i (N.ones (N.of_nat k))) = lowz m i.
Proof.
  unfold ctl, nN. induction m as [|m IH]; intros k i Hk; [reflexivity|].
  rewrite seq_S, map_app, forallb_app. cbn [map forallb Nat.add lowz]. rewrite IH by lia.
  rewrite N.lxor_spec, ones_bits. destruct (N.ltb_spec (N.of_nat m) (N.of_nat k)); [|lia].
  rewrite andb_true_r, andb_comm. now destruct (N.testbit i (N.of_nat m)).
Qed.

Lemma xall_refZ_xall m phi i : xall m (refZ (nN (seq 0 m)) (xall m phi)) i = Z0 m phi i.
Proof.
  unfold xall, refZ, Z0. rewrite ctl_xall_lowz by lia.
  now rewrite N.lxor_assoc, N.lxor_nilpotent, N.lxor_0_r.
Qed.

(* the diffuser, gate by gate as coded, on the canonical layout (phase qubit at n):
   2^(n+1) * identity - 2 * (sum over the search register and the phase qubit).
   Dividing by the 2^(n+1) of its 2(n+1) Hadamards: psi - 2 * mean(psi) for every
   fixed value of `_ret`, i.e. the inversion about the mean up to a global sign *)
Theorem grover_diffuser_is_reflection n psi i :
  diff_l n (N.of_nat n) psi i =
  (pow2z (S n) * psi i - 2 * sumN (S n) (fun x => psi (setlow (S n) i x)))%Z.
Proof.
  assert (E : diff_l n (N.of_nat n) psi i = xh_l (S n) (refZ (nN (seq 0 (S n))) (hx_l (S n) psi)) i).
  { unfold diff_l. cbn [xh_l hx_l]. rewrite seq_S. unfold nN. rewrite map_app. reflexivity. }
  rewrite E, xh_xall.
  rewrite (hlayer_ext (S n) _ (Z0 (S n) (hlayer (S n) psi))).
  - rewrite hlayer_WH. rewrite (WH_ext (S n) _ (Z0 (S n) (WH (S n) psi))).
    + apply diffuser_is_reflection.
    + intros j. unfold Z0. now rewrite hlayer_WH.
  - intros j. rewrite <- xall_refZ_xall. unfold xall. apply refZ_ext. intros t. apply hx_xall.
Qed.

(* ================================================================== *)
(* G. reading probabilities off the evaluator's final list             *)
(* ================================================================== *)
Lemma asum_false_in P (l : amps) : (forall e, In e l -> P (fst e) = false) -> asum P l = 0%Z.
Proof.
  induction l as [|e r IH]; intros H; cbn [asum]; [reflexivity|].
  rewrite (H e) by now left. rewrite IH; [reflexivity|]. intros e' He'. apply H. now right.
Qed.

Lemma sorted_head_lt e r : strictly_sorted (e :: r) = true -> forall e', In e' r -> fst e < fst e'.
Proof.
  revert e. induction r as [|e1 r IH]; intros e Hs e' Hin; [destruct Hin|].
  cbn [strictly_sorted] in Hs. apply andb_true_iff in Hs as [H1 H2]. apply N.ltb_lt in H1.
  destruct Hin as [<-|Hin]; [exact H1|]. specialize (IH e1 H2 e' Hin). lia.
Qed.
Lemma sorted_tail e r : strictly_sorted (e :: r) = true -> strictly_sorted r = true.
Proof. cbn [strictly_sorted]. destruct r; [reflexivity|]. intros H. now apply andb_true_iff in H as [_ H]. Qed.

(* numerator of the probability of an event P, read off a duplicate-free list, is the
   sum over ALL basis states of the squared reference amplitude *)
Theorem sqsum_spec nq P : forall l, strictly_sorted l = true -> keys_below nq l = true ->
  sqsum P l = sumN nq (fun i => if P i then (amp_of l i * amp_of l i)%Z else 0%Z).
Proof.
  induction l as [|e r IH]; intros Hs Hk.
  - cbn [sqsum]. unfold amp_of. cbn [asum]. rewrite (sumN_ext nq _ (fun _ => 0%Z)), sumN_zero; [reflexivity|].
    intros i _. now destruct (P i).
  - cbn [sqsum]. cbn [keys_below forallb] in Hk. apply andb_true_iff in Hk as [Hk1 Hk2]. apply N.ltb_lt in Hk1.
    rewrite (IH (sorted_tail e r Hs) Hk2).
    assert (Hz : amp_of r (fst e) = 0%Z).
    { apply asum_false_in. intros e' He'. pose proof (sorted_head_lt e r Hs e' He'). apply N.eqb_neq. lia. }
    rewrite (sumN_ext nq (fun i => if P i then (amp_of (e :: r) i * amp_of (e :: r) i)%Z else 0%Z)
      (fun i => ((if N.eqb i (fst e) then (if P i then snd e * snd e else 0) else 0) +
                 (if P i then amp_of r i * amp_of r i else 0))%Z)).
    + rewrite sumN_add, (sumN_single nq (fst e) (fun i => if P i then (snd e * snd e)%Z else 0%Z)) by exact Hk1. reflexivity.
    + intros i _. unfold amp_of at 1 2. cbn [asum]. fold (amp_of r i).
      destruct (N.eqb_spec i (fst e)) as [->|Hne].
      * rewrite Hz. destruct (P (fst e)); lia.
      * destruct (P i); lia.
Qed.

(* together with amp_run_spec: the marginal numerators the harness reads are sums of
   squared REFERENCE amplitudes of the real circuit *)
Corollary marginal_is_reference nq c l k psi mask y :
  run_amp nq c = Some (l, k) -> run_ref nq c (delta0, 0%nat) = Some (psi, k) ->
  strictly_sorted l = true -> keys_below nq l = true ->
  amp_of (marginal mask l) y = sumN nq (fun i => if N.eqb y (N.land i mask) then (psi i * psi i)%Z else 0%Z).
Proof.
  intros Ha Hr Hs Hk. rewrite marginal_spec, (sqsum_spec nq _ l Hs Hk).
  pose proof (amp_run_spec nq c) as H. rewrite Ha, Hr in H. destruct H as [_ H].
  apply sumN_ext. intros i _. now rewrite H.
Qed.

(* ================================================================== *)
(* H. the same theorems with the harness's decisions as hypotheses     *)
(* ================================================================== *)
Lemma c06_checked n nq c ds ret out : (n <= out < nq)%nat ->
  c06_check n nq c ds ret out = Some 0 -> c06_holds n nq c ds ret out.
Proof. intros Ho H. now apply (c06_check_correct n nq c ds ret out Ho) in H as (_ & _ & _ & H). Qed.

Lemma c03_checked n nq c outs : c03_check n nq c outs = Some 0 -> c03_holds n nq c outs.
Proof. intros H. now apply c03_check_correct in H as [_ H]. Qed.

(* Simon's black box, from the C03 decision *)
Lemma simon_inputs_checked n nq c outs : xonly nq c = true -> c03_check n nq c outs = Some 0 ->
  forall x, inr n x -> forall j, j < N.of_nat n -> N.testbit (actf nq c x) j = N.testbit x j.
Proof. intros Hx H. apply (c03_inputs_preserved n nq c outs Hx). now apply c03_checked. Qed.

Lemma oracle_action_checked n nq c ds ret out :
  (n <= out < nq)%nat -> xonly nq c = true -> c06_check n nq c ds ret out = Some 0 ->
  forall psi k,
  exists psi', run_ref nq c (psi, k) = Some (psi', k) /\
    (forall i, cleanb n out i = true -> psi' i = psi (omap n ds ret out i)) /\
    (forall i, cleanb n out i = false -> exists j, cleanb n out j = false /\ psi' i = psi j).
Proof. intros Ho Hx Hc. apply (oracle_action n nq c ds ret out Ho Hx), c06_checked; assumption. Qed.

Lemma oracle_action_hi_checked n nq c ds ret out :
  (n <= out < nq)%nat -> xonly nq c = true -> c06_check n nq c ds ret out = Some 0 ->
  forall psi k,
  exists psi', run_ref (S nq) c (psi, k) = Some (psi', k) /\
    (forall i, cleanq n nq out i = true -> psi' i = psi (omap n ds ret out i)) /\
    (forall i, cleanq n nq out i = false -> exists j, cleanq n nq out j = false /\ psi' i = psi j).
Proof. intros Ho Hx Hc. apply (oracle_action_hi n nq c ds ret out Ho Hx), c06_checked; assumption. Qed.

Lemma dj_amplitudes_checked n nq c ds ret out :
  (n <= out < nq)%nat -> xonly nq c = true -> c06_check n nq c ds ret out = Some 0 ->
  exists psi, run_ref nq (dj_circuit n out c) (delta0, 0%nat) = Some (psi, (2 * n + 1)%nat) /\
    forall i, psi i = if cleanb n out i
                      then sgn (N.testbit i (N.of_nat out))
                             (sumN n (fun x => sgn (xorb (dotb n x i) (run_defs (asg x) ds ret)) 1%Z))
                      else 0%Z.
Proof. intros Ho Hx Hc. apply (dj_amplitudes n nq c ds ret out Ho Hx), c06_checked; assumption. Qed.

Lemma dj_zero_outcome_checked n nq c ds ret out :
  (n <= out < nq)%nat -> xonly nq c = true -> c06_check n nq c ds ret out = Some 0 ->
  exists psi, run_ref nq (dj_circuit n out c) (delta0, 0%nat) = Some (psi, (2 * n + 1)%nat) /\
    psi 0 = sumN n (fun x => sgn (run_defs (asg x) ds ret) 1%Z) /\
    psi (bitm (N.of_nat out)) = (- sumN n (fun x => sgn (run_defs (asg x) ds ret) 1%Z))%Z /\
    (forall i, lowz n i = true -> i <> 0 -> i <> bitm (N.of_nat out) -> psi i = 0%Z).
Proof. intros Ho Hx Hc. apply (dj_zero_outcome n nq c ds ret out Ho Hx), c06_checked; assumption. Qed.

Lemma dj_constant_checked n nq c ds ret out b :
  (n <= out < nq)%nat -> xonly nq c = true -> c06_check n nq c ds ret out = Some 0 ->
  (forall x, x < pow2n n -> run_defs (asg x) ds ret = b) ->
  exists psi, run_ref nq (dj_circuit n out c) (delta0, 0%nat) = Some (psi, (2 * n + 1)%nat) /\
    (psi 0%N * psi 0%N + psi (bitm (N.of_nat out)) * psi (bitm (N.of_nat out)))%Z = pow2z (2 * n + 1).
Proof. intros Ho Hx Hc. apply (dj_constant n nq c ds ret out Ho Hx), c06_checked; assumption. Qed.

Lemma dj_balanced_checked n nq c ds ret out :
  (n <= out < nq)%nat -> xonly nq c = true -> c06_check n nq c ds ret out = Some 0 ->
  (2 * sumN n (fun x => if run_defs (asg x) ds ret then 1 else 0) = pow2z n)%Z ->
  exists psi, run_ref nq (dj_circuit n out c) (delta0, 0%nat) = Some (psi, (2 * n + 1)%nat) /\
    forall i, lowz n i = true -> psi i = 0%Z.
Proof. intros Ho Hx Hc. apply (dj_balanced n nq c ds ret out Ho Hx), c06_checked; assumption. Qed.

Lemma bv_certain_checked n nq c rs out s :
  (n <= out < nq)%nat -> s < pow2n n -> xonly nq c = true ->
  c06_check n nq c [(rs, secret_expr n s)] rs out = Some 0 ->
  exists psi, run_ref nq (bv_circuit n out c) (delta0, 0%nat) = Some (psi, (2 * n + 1)%nat) /\
    (psi s * psi s + psi (N.lor s (bitm (N.of_nat out))) * psi (N.lor s (bitm (N.of_nat out))))%Z = pow2z (2 * n + 1) /\
    forall i, lowpart n i <> s -> psi i = 0%Z.
Proof. intros Ho Hs Hx Hc. apply (bv_certain n nq c rs out s Ho Hs Hx), c06_checked; assumption. Qed.

Lemma simon_amplitudes_checked n nq c outs :
  (n <= nq)%nat -> xonly nq c = true -> c03_check n nq c outs = Some 0 ->
  exists psi, run_ref nq (simon_circuit n c) (delta0, 0%nat) = Some (psi, (2 * n)%nat) /\
    forall i, psi i = sumN n (fun x => sgn (dotb n x i)
                                         (if N.eqb (simonF n nq c x) (hi n i) then 1%Z else 0%Z)).
Proof. intros Hn Hx Hc. apply (simon_amplitudes n nq c Hn Hx). now apply (simon_inputs_checked n nq c outs). Qed.

Lemma simon_orthogonal_checked n nq c outs s :
  (n <= nq)%nat -> xonly nq c = true -> c03_check n nq c outs = Some 0 -> s < pow2n n ->
  (forall x, x < pow2n n -> simonF n nq c (N.lxor x s) = simonF n nq c x) ->
  exists psi, run_ref nq (simon_circuit n c) (delta0, 0%nat) = Some (psi, (2 * n)%nat) /\
    forall i, psi i <> 0%Z -> dotb n s i = false.
Proof.
  intros Hn Hx Hc Hs. apply (simon_orthogonal n nq c Hn Hx); [now apply (simon_inputs_checked n nq c outs)|exact Hs].
Qed.

Lemma simon_uniform_checked n nq c outs s :
  (n <= nq)%nat -> xonly nq c = true -> c03_check n nq c outs = Some 0 -> s < pow2n n -> s <> 0 ->
  (forall x x', x < pow2n n -> x' < pow2n n ->
     (simonF n nq c x = simonF n nq c x' <-> x' = x \/ x' = N.lxor x s)) ->
  exists psi, run_ref nq (simon_circuit n c) (delta0, 0%nat) = Some (psi, (2 * n)%nat) /\
    forall i i', dotb n s i = false -> dotb n s i' = false -> hi n i = hi n i' ->
      (psi i * psi i = psi i' * psi i')%Z.
Proof.
  intros Hn Hx Hc Hs. apply (simon_uniform n nq c Hn Hx); [now apply (simon_inputs_checked n nq c outs)|exact Hs].
Qed.

Lemma grover_amplitudes_checked n nq c ds ret out iters :
  (n <= out < nq)%nat -> xonly nq c = true -> c06_check n nq c ds ret out = Some 0 ->
  exists psi, run_ref (S nq) (grover_circuit n nq out c iters) (delta0, 0%nat)
              = Some (psi, (n + 1 + S (iters - 1) * (2 * n + 2))%nat) /\
    (forall x r p, x < pow2n n ->
       psi (enc out nq x r p) = gabs n (fun x => run_defs (asg x) ds ret) iters (enc (S n) n x r p)) /\
    (forall i, clean3 n nq out i = false -> psi i = 0%Z).
Proof. intros Ho Hx Hc. apply (grover_amplitudes n nq c ds ret out iters Ho Hx), c06_checked; assumption. Qed.

Lemma grover_depends_only_on_f_checked n iters nq1 c1 ds1 ret1 out1 nq2 c2 ds2 ret2 out2 :
  (n <= out1 < nq1)%nat -> xonly nq1 c1 = true -> c06_check n nq1 c1 ds1 ret1 out1 = Some 0 ->
  (n <= out2 < nq2)%nat -> xonly nq2 c2 = true -> c06_check n nq2 c2 ds2 ret2 out2 = Some 0 ->
  (forall x, x < pow2n n -> run_defs (asg x) ds1 ret1 = run_defs (asg x) ds2 ret2) ->
  exists psi1 psi2 k,
    run_ref (S nq1) (grover_circuit n nq1 out1 c1 iters) (delta0, 0%nat) = Some (psi1, k) /\
    run_ref (S nq2) (grover_circuit n nq2 out2 c2 iters) (delta0, 0%nat) = Some (psi2, k) /\
    (forall x r p, x < pow2n n -> psi1 (enc out1 nq1 x r p) = psi2 (enc out2 nq2 x r p)) /\
    (forall i, clean3 n nq1 out1 i = false -> psi1 i = 0%Z) /\
    (forall i, clean3 n nq2 out2 i = false -> psi2 i = 0%Z).
Proof.
  intros Ho1 Hx1 Hc1 Ho2 Hx2 Hc2. apply grover_depends_only_on_f; try assumption; now apply c06_checked.
Qed.

(* ================================================================== *)
(* I. Grover: the abstract state lives on 8 classes                    *)
(* ================================================================== *)
(* amplitude as a function of (f x, `_ret`, phase) *)
Definition cls : Type := bool -> bool -> bool -> Z.
Definition c_or (c : cls) : cls := fun b r p => c b (xorb r b) p.
Definition c_z (c : cls) : cls := fun b r p => if r && p then (- c b r p)%Z else c b r p.
(* N2 = 2^(n+1), Nn = 2^n, M = number of solutions *)
Definition c_d (N2 Nn M : Z) (c : cls) : cls := fun b r p =>
  (N2 * c b r p - 2 * ((M * c true r false + (Nn - M) * c false r false) +
                       (M * c true r true + (Nn - M) * c false r true)))%Z.
Definition c_step (n : nat) (M : Z) (c : cls) : cls := c_d (pow2z (S n)) (pow2z n) M (c_z (c_or c)).
Fixpoint c_iter (k : nat) (n : nat) (M : Z) (c : cls) : cls :=
  match k with O => c | S k' => c_iter k' n M (c_step n M c) end.
Definition c_init : cls := fun b r p => if r then 0%Z else 1%Z.

Definition class_state (n : nat) (f : N -> bool) (c : cls) : N -> Z :=
  fun a => if highz (S (S n)) a
           then c (f (lowpart n a)) (N.testbit a (N.of_nat (S n))) (N.testbit a (N.of_nat n))
           else 0%Z.

Lemma highz_ext m a b : (forall j, N.of_nat m <= j -> N.testbit a j = N.testbit b j) -> highz m a = highz m b.
Proof.
  intros H. unfold highz. f_equal. apply N.bits_inj. intros j. rewrite !N.ldiff_spec, ones_bits.
  destruct (N.ltb_spec j (N.of_nat m)); [now rewrite !andb_false_r|]. now rewrite H.
Qed.
Lemma lowpart_ext n a b : (forall j, j < N.of_nat n -> N.testbit a j = N.testbit b j) -> lowpart n a = lowpart n b.
Proof.
  intros H. apply N.bits_inj. intros j. rewrite !lowpart_bits. destruct (N.ltb_spec j (N.of_nat n)); [|reflexivity].
  cbn [andb]. now apply H.
Qed.

Lemma sum_class n (f : N -> bool) (a b : Z) :
  sumN n (fun x => if f x then a else b) = (fcount n f * a + (pow2z n - fcount n f) * b)%Z.
Proof.
  unfold fcount.
  rewrite (sumN_ext n _ (fun x => (b + (a - b) * (if f x then 1 else 0))%Z)) by (intros x _; destruct (f x); lia).
  rewrite sumN_add, sumN_scale, sumN_const. lia.
Qed.

Section Classes.
  Variables (n : nat) (f : N -> bool).
  Let M := fcount n f.
  Local Notation aP := (N.of_nat n).
  Local Notation aR := (N.of_nat (S n)).
  Local Notation CS := (class_state n f).

  Lemma cs_or c a : abs_or n f (CS c) a = CS (c_or c) a.
  Proof.
    unfold abs_or, class_state, c_or. destruct (f (lowpart n a)) eqn:E.
    - rewrite (highz_ext (S (S n)) (flipq aR a) a), (lowpart_ext n (flipq aR a) a).
      + rewrite E, !flipq_bits, N.eqb_refl. destruct (N.eqb_spec aR aP); [lia|]. now rewrite xorb_false_r.
      + intros j Hj. rewrite flipq_bits. bash.
      + intros j Hj. rewrite flipq_bits. bash.
    - now rewrite E, xorb_false_r.
  Qed.

  Lemma cs_z c a : refZ [aR; aP] (CS c) a = CS (c_z c) a.
  Proof.
    unfold refZ, class_state, c_z. cbn [ctl forallb]. rewrite andb_true_r.
    destruct (highz (S (S n)) a), (N.testbit a aR), (N.testbit a aP); reflexivity.
  Qed.

  Lemma cs_setlow c a x' (b : bool) : inr n x' ->
    CS c (setlow (S n) a (if b then N.setbit x' aP else x')) =
    if highz (S (S n)) a then c (f x') (N.testbit a aR) b else 0%Z.
  Proof.
    intros Hx. unfold class_state.
    rewrite (highz_ext (S (S n)) _ a) by (intros j Hj; rewrite setlow_bits; bash).
    destruct (highz (S (S n)) a); [|reflexivity].
    assert (E1 : lowpart n (setlow (S n) a (if b then N.setbit x' aP else x')) = x').
    { apply N.bits_inj. intros j. rewrite lowpart_bits, setlow_bits.
      destruct (N.ltb_spec j aP) as [H|H]; cbn [andb].
      - destruct (N.ltb_spec j aR); [|lia]. destruct b; [rewrite N.setbit_eqb; bash|reflexivity].
      - symmetry. now apply (inr_high n x'). }
    rewrite E1, !setlow_bits. destruct (N.ltb_spec aR aR); [lia|]. destruct (N.ltb_spec aP aR); [|lia].
    f_equal. destruct b; [apply testbit_setbit|]. apply (inr_high n x'); [exact Hx|lia].
  Qed.

  Lemma cs_d c a : diff_l n aP (CS c) a = CS (c_d (pow2z (S n)) (pow2z n) M c) a.
  Proof.
    rewrite grover_diffuser_is_reflection. cbn [sumN].
    rewrite (sumN_ext n (fun x => CS c (setlow (S n) a x))
              (fun x => if highz (S (S n)) a then (if f x then c true (N.testbit a aR) false else c false (N.testbit a aR) false) else 0%Z))
      by (intros x Hx; rewrite (cs_setlow c a x false Hx); destruct (highz (S (S n)) a), (f x); reflexivity).
    rewrite (sumN_ext n (fun x => CS c (setlow (S n) a (N.setbit x aP)))
              (fun x => if highz (S (S n)) a then (if f x then c true (N.testbit a aR) true else c false (N.testbit a aR) true) else 0%Z))
      by (intros x Hx; rewrite (cs_setlow c a x true Hx); destruct (highz (S (S n)) a), (f x); reflexivity).
    unfold class_state, c_d. destruct (highz (S (S n)) a).
    - rewrite !sum_class. fold M. lia.
    - rewrite sumN_zero. lia.
  Qed.

  Lemma cs_step alpha c : (forall a, alpha a = CS c a) -> forall a, gstep n f alpha a = CS (c_step n M c) a.
  Proof.
    intros H a. unfold gstep, c_step. rewrite <- cs_d. apply diff_l_ext. intros j.
    rewrite <- cs_z. apply refZ_ext. intros j'. rewrite <- cs_or. apply abs_or_ext; [reflexivity|exact H].
  Qed.

  Lemma cs_iter k : forall alpha c, (forall a, alpha a = CS c a) ->
    forall a, giter k n f alpha a = CS (c_iter k n M c) a.
  Proof.
    induction k as [|k IH]; intros alpha c H a; cbn [giter c_iter]; [apply H|].
    apply IH. now apply cs_step.
  Qed.

  Lemma cs_init a : refH aP (hlayer n delta0) a = CS c_init a.
  Proof.
    unfold refH, class_state, c_init. rewrite !hlayer_delta0.
    assert (E1 : highz n (N.setbit a aP) = false).
    { destruct (highz n (N.setbit a aP)) eqn:E; [|reflexivity]. rewrite highz_spec in E.
      specialize (E aP (N.le_refl _)). now rewrite testbit_setbit in E. }
    rewrite E1.
    assert (E2 : highz n (N.clearbit a aP) = highz (S (S n)) a && negb (N.testbit a aR)).
    { apply eq_true_iff_eq. rewrite andb_true_iff, negb_true_iff, !highz_spec. split.
      - intros H. split.
        + intros j Hj. specialize (H j). rewrite N.clearbit_eqb in H.
          destruct (N.eqb_spec aP j); [lia|]. rewrite andb_true_r in H. apply H. lia.
        + specialize (H aR). rewrite N.clearbit_eqb in H. destruct (N.eqb_spec aP aR); [lia|].
          rewrite andb_true_r in H. apply H. lia.
      - intros [H1 H2] j Hj. rewrite N.clearbit_eqb. destruct (N.eqb_spec aP j) as [|Hne]; [apply andb_false_r|].
        rewrite andb_true_r. destruct (N.eq_dec j aR) as [->|Hne2]; [exact H2|]. apply H1. lia. }
    rewrite E2. destruct (highz (S (S n)) a), (N.testbit a aR), (N.testbit a aP); reflexivity.
  Qed.

  (* the abstract Grover state is a function of the class (f x, `_ret`, phase) only, and the
     8 class amplitudes follow the integer recurrence c_step in N = 2^n and M = #solutions *)
  Theorem grover_classes iters a :
    gabs n f iters a = CS (c_iter (S (iters - 1)) n M c_init) a.
  Proof. unfold gabs. apply cs_iter. apply cs_init. Qed.
End Classes.

(* ================================================================== *)
(* J. Grover: the table for 2..6 search qubits, M <= N/4               *)
(* ================================================================== *)
(* probability numerator of ONE search outcome of class b (sum over `_ret` and phase) *)
Definition c_prob (c : cls) (b : bool) : Z :=
  (c b false false * c b false false + c b false true * c b false true +
   c b true false * c b true false + c b true true * c b true true)%Z.
(* number of H gates of the Grover circuit = exponent of the denominator *)
Definition grover_k (n iters : nat) : nat := (n + 1 + S (iters - 1) * (2 * n + 2))%nat.

(* for n search qubits and m solutions, with the default iteration count:
   a solution is strictly more likely than a non-solution, and m solutions together
   have probability > 1/2 *)
Definition table_ok (n m : nat) : bool :=
  match grover_iters (2 ^ N.of_nat n) (N.of_nat m) with
  | Some it =>
      let c := c_iter (S (it - 1)) n (Z.of_nat m) c_init in
      Z.ltb (c_prob c false) (c_prob c true) &&
      Z.ltb (pow2z (grover_k n it)) (2 * Z.of_nat m * c_prob c true)
  | None => false
  end.
Definition table_range : list (nat * nat) :=
  flat_map (fun n => map (fun m => (n, m)) (seq 1 (2 ^ n / 4))) [2; 3; 4; 5; 6]%nat.

Lemma table_all_ok : forallb (fun nm => table_ok (fst nm) (snd nm)) table_range = true.
Proof. vm_compute. reflexivity. Qed.

Lemma table_range_in n m : (2 <= n <= 6)%nat -> (1 <= m)%nat -> (4 * m <= 2 ^ n)%nat -> In (n, m) table_range.
Proof.
  intros Hn Hm H4. unfold table_range. apply in_flat_map. exists n. split.
  - destruct n as [|[|[|[|[|[|[|n]]]]]]]; try lia; cbn; tauto.
  - apply in_map_iff. exists m. split; [reflexivity|]. apply in_seq.
    assert (m <= 2 ^ n / 4)%nat by (apply Nat.div_le_lower_bound; lia). lia.
Qed.

Lemma table_ok_in n m : (2 <= n <= 6)%nat -> (1 <= m)%nat -> (4 * m <= 2 ^ n)%nat -> table_ok n m = true.
Proof.
  intros Hn Hm H4. pose proof table_all_ok as H. rewrite forallb_forall in H.
  apply (H (n, m)). now apply table_range_in.
Qed.

Definition pr4 (psi : N -> Z) (out nq : nat) (x : N) : Z :=
  (psi (enc out nq x false false) * psi (enc out nq x false false) +
   psi (enc out nq x false true) * psi (enc out nq x false true) +
   psi (enc out nq x true false) * psi (enc out nq x true false) +
   psi (enc out nq x true true) * psi (enc out nq x true true))%Z.

Lemma class_state_enc n f c x r p : inr n x ->
  class_state n f c (enc (S n) n x r p) = c (f x) r p.
Proof.
  intros Hx. unfold class_state.
  assert (Hh : forall j, N.of_nat n <= j -> N.testbit x j = false) by (intros j Hj; now apply (inr_high n x)).
  assert (E0 : highz (S (S n)) (enc (S n) n x r p) = true).
  { apply highz_spec. intros j Hj. rewrite enc_bits, Hh by lia. destruct r, p; bash. }
  assert (E1 : lowpart n (enc (S n) n x r p) = x).
  { apply N.bits_inj. intros j. rewrite lowpart_bits, enc_bits.
    destruct (N.ltb_spec j (N.of_nat n)) as [H|H]; cbn [andb]; [destruct r, p; bash|now rewrite Hh]. }
  rewrite E0, E1, !enc_bits, !Hh by lia. f_equal; destruct r, p; bash.
Qed.

(* C15 (ii) and (iii) for EVERY predicate with m solutions on 2..6 search qubits, 1 <= m <= N/4,
   every clean xor-oracle circuit for it, default iteration count: every solution is strictly
   more likely than every non-solution and the solutions together have probability > 1/2.
   pr4 psi out nq x / 2^k is the probability of reading x on the search register (the other
   basis states with search bits x have amplitude 0). *)
Theorem grover_amplifies n nq c ds ret out m iters :
  (n <= out < nq)%nat -> xonly nq c = true -> c06_holds n nq c ds ret out ->
  (2 <= n <= 6)%nat -> (1 <= m)%nat -> (4 * m <= 2 ^ n)%nat ->
  fcount n (ofun ds ret) = Z.of_nat m ->
  grover_iters (2 ^ N.of_nat n) (N.of_nat m) = Some iters ->
  exists psi, run_ref (S nq) (grover_circuit n nq out c iters) (delta0, 0%nat) = Some (psi, grover_k n iters) /\
    (forall i, clean3 n nq out i = false -> psi i = 0%Z) /\
    (forall x x', inr n x -> inr n x' -> ofun ds ret x = true -> ofun ds ret x' = false ->
       (pr4 psi out nq x' < pr4 psi out nq x)%Z) /\
    (forall x, inr n x -> ofun ds ret x = true ->
       (pow2z (grover_k n iters) < 2 * Z.of_nat m * pr4 psi out nq x)%Z).
Proof.
  intros Ho Hx H06 Hn Hm H4 Hcnt Hit.
  destruct (grover_amplitudes n nq c ds ret out iters Ho Hx H06) as (psi & Hr & Ha & Hz).
  exists psi. split; [exact Hr|]. split; [exact Hz|].
  pose proof (table_ok_in n m Hn Hm H4) as Ht. unfold table_ok in Ht. rewrite Hit in Ht.
  apply andb_true_iff in Ht as [T1 T2]. apply Z.ltb_lt in T1, T2.
  set (cc := c_iter (S (iters - 1)) n (Z.of_nat m) c_init) in *.
  assert (Hp : forall x, inr n x -> pr4 psi out nq x = c_prob cc (ofun ds ret x)).
  { intros x Hxx. unfold pr4, c_prob. rewrite !Ha by exact Hxx. rewrite !grover_classes, Hcnt.
    fold cc. now rewrite !class_state_enc by exact Hxx. }
  split.
  - intros x x' Hxx Hxx' Hf Hf'. rewrite (Hp x Hxx), (Hp x' Hxx'), Hf, Hf'. exact T1.
  - intros x Hxx Hf. rewrite (Hp x Hxx), Hf. exact T2.
Qed.

Lemma grover_amplifies_checked n nq c ds ret out m iters :
  (n <= out < nq)%nat -> xonly nq c = true -> c06_check n nq c ds ret out = Some 0 ->
  (2 <= n <= 6)%nat -> (1 <= m)%nat -> (4 * m <= 2 ^ n)%nat ->
  sumN n (fun x => if run_defs (asg x) ds ret then 1%Z else 0%Z) = Z.of_nat m ->
  grover_iters (2 ^ N.of_nat n) (N.of_nat m) = Some iters ->
  exists psi, run_ref (S nq) (grover_circuit n nq out c iters) (delta0, 0%nat) = Some (psi, grover_k n iters) /\
    (forall i, clean3 n nq out i = false -> psi i = 0%Z) /\
    (forall x x', x < pow2n n -> x' < pow2n n ->
       run_defs (asg x) ds ret = true -> run_defs (asg x') ds ret = false ->
       (pr4 psi out nq x' < pr4 psi out nq x)%Z) /\
    (forall x, x < pow2n n -> run_defs (asg x) ds ret = true ->
       (pow2z (grover_k n iters) < 2 * Z.of_nat m * pr4 psi out nq x)%Z).
Proof. intros Ho Hx Hc. apply grover_amplifies; try assumption. now apply c06_checked. Qed.

Lemma grover_classes_stmt n f iters a :
  gabs n f iters a = class_state n f (c_iter (S (iters - 1)) n (fcount n f) c_init) a.
Proof. apply grover_classes. Qed.

(* ================================================================== *)
(* K. Simon: the black box's F in terms of the return expressions      *)
(* ================================================================== *)
(* from the C02 and C03 decisions: F x = F x' iff all return bits agree *)
Lemma simonF_values n nq c ds rets :
  xonly nq c = true -> c02_holds n c ds rets -> c03_holds n nq c (map snd rets) ->
  (forall s q, In (s, q) rets -> (n <= q)%nat) ->
  forall x x', inr n x -> inr n x' ->
    (simonF n nq c x = simonF n nq c x' <->
     forall s q, In (s, q) rets -> run_defs (asg x) ds s = run_defs (asg x') ds s).
Proof.
  intros Hx H2 H3 Hq x x' Hxx Hxx'.
  (* the bits of the final index above the input register *)
  assert (Bits : forall y, inr n y ->
     (forall s q, In (s, q) rets -> N.testbit (actf nq c y) (N.of_nat q) = run_defs (asg y) ds s) /\
     (forall j, N.of_nat n <= j -> (forall s q, In (s, q) rets -> j <> N.of_nat q) -> N.testbit (actf nq c y) j = false)).
  { intros y Hy. destruct (H2 y Hy) as (f2 & Hf2 & Hv). destruct (H3 y Hy) as (f3 & Hf3 & _ & Hz).
    destruct (actf_fsim nq c Hx y) as (fa & Hfa & Hqa).
    assert (Hext : forall q, basis n y q = bitsf y q).
    { intros q. unfold basis, bitsf. destruct (Nat.ltb_spec q n); [reflexivity|].
      symmetry. apply (inr_high n y); [exact Hy|lia]. }
    pose proof (fsim_ext c _ _ Hext) as He. rewrite Hfa in He.
    rewrite Hf2 in He. cbn in He. rewrite Hf2 in Hf3. injection Hf3 as <-. split.
    - intros s q Hin. change (bitsf (actf nq c y) q = run_defs (asg y) ds s). rewrite <- Hqa, <- He. now apply Hv.
    - intros j Hj Hno. destruct (N.lt_ge_cases j (N.of_nat nq)) as [Hl|Hl].
      + rewrite <- (N2Nat.id j). set (q := N.to_nat j). change (bitsf (actf nq c y) q = false).
        rewrite <- Hqa, <- He. apply Hz; [unfold q; lia|].
        intros Hin. apply in_map_iff in Hin as ([s q'] & E & Hin). cbn [snd] in E. subst q'.
        apply (Hno s q Hin). unfold q. now rewrite N2Nat.id.
      + rewrite actf_high by exact Hl. apply (inr_high n y); [exact Hy|lia]. }
  destruct (Bits x Hxx) as [Bx1 Bx2], (Bits x' Hxx') as [By1 By2]. unfold simonF. split.
  - intros E s q Hin. rewrite <- (Bx1 s q Hin), <- (By1 s q Hin).
    assert (Hb : N.testbit (N.shiftr (actf nq c x) (N.of_nat n)) (N.of_nat q - N.of_nat n) =
                 N.testbit (N.shiftr (actf nq c x') (N.of_nat n)) (N.of_nat q - N.of_nat n)) by now rewrite E.
    rewrite !N.shiftr_spec' in Hb. specialize (Hq s q Hin).
    now replace (N.of_nat q - N.of_nat n + N.of_nat n) with (N.of_nat q) in Hb by lia.
  - intros E. apply N.bits_inj. intros m. rewrite !N.shiftr_spec'. set (j := m + N.of_nat n).
    assert (Hj : N.of_nat n <= j) by (unfold j; lia).
    (* is j one of the output qubits? *)
    destruct (existsb (fun sq => N.eqb j (N.of_nat (snd sq))) rets) eqn:Ex.
    + apply existsb_exists in Ex as ([s q] & Hin & Hjq). cbn [snd] in Hjq. apply N.eqb_eq in Hjq. rewrite Hjq.
      rewrite (Bx1 s q Hin), (By1 s q Hin). now apply (E s q).
    + assert (Hno : forall s q, In (s, q) rets -> j <> N.of_nat q).
      { intros s q Hin Hjq. assert (existsb (fun sq => N.eqb j (N.of_nat (snd sq))) rets = true).
        { apply existsb_exists. exists (s, q). split; [exact Hin|]. cbn [snd]. now apply N.eqb_eq. }
        congruence. }
      now rewrite (Bx2 j Hj Hno), (By2 j Hj Hno).
Qed.

Lemma c02_checked n nq c ds rets : c02_check n nq c ds rets = Some 0 -> c02_holds n c ds rets.
Proof. intros H. now apply c02_check_correct in H as [_ H]. Qed.

(* Simon's guarantee from the harness's decisions: C02 + C03 accepted, return bits above the
   input register, and the function denoted by the return expressions two-to-one with period s *)
Theorem simon_guarantee_checked n nq c ds rets s :
  (n <= nq)%nat -> xonly nq c = true ->
  c02_check n nq c ds rets = Some 0 -> c03_check n nq c (map snd rets) = Some 0 ->
  (forall sy q, In (sy, q) rets -> (n <= q)%nat) ->
  s < pow2n n -> s <> 0 ->
  (forall x x', x < pow2n n -> x' < pow2n n ->
     ((forall sy q, In (sy, q) rets -> run_defs (asg x) ds sy = run_defs (asg x') ds sy)
      <-> x' = x \/ x' = N.lxor x s)) ->
  exists psi, run_ref nq (simon_circuit n c) (delta0, 0%nat) = Some (psi, (2 * n)%nat) /\
    (forall i, psi i <> 0%Z -> dotb n s i = false) /\
    (forall i i', dotb n s i = false -> dotb n s i' = false -> hi n i = hi n i' ->
       (psi i * psi i = psi i' * psi i')%Z).
Proof.
  intros Hn Hx H2 H3 Hq Hs Hs0 H21.
  pose proof (simon_inputs_checked n nq c (map snd rets) Hx H3) as Hin.
  pose proof (simonF_values n nq c ds rets Hx (c02_checked _ _ _ _ _ H2) (c03_checked _ _ _ _ H3) Hq) as HF.
  assert (H21F : forall x x', inr n x -> inr n x' ->
            (simonF n nq c x = simonF n nq c x' <-> x' = x \/ x' = N.lxor x s)).
  { intros x x' Hxx Hxx'. rewrite (HF x x' Hxx Hxx'). now apply H21. }
  assert (Hper : forall x, inr n x -> simonF n nq c (N.lxor x s) = simonF n nq c x).
  { intros x Hxx. symmetry. apply (H21F x (N.lxor x s) Hxx); [now apply inr_lxor|now right]. }
  destruct (simon_orthogonal n nq c Hn Hx Hin s Hs Hper) as (psi1 & Hr1 & Ho).
  destruct (simon_uniform n nq c Hn Hx Hin s Hs Hs0 H21F) as (psi2 & Hr2 & Hu).
  rewrite Hr1 in Hr2. injection Hr2 as <-. exists psi1. now repeat split.
Qed.
