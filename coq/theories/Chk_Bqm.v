(* Chk_Bqm.v — functions harness/c18.py evaluates (vm_compute) on what it observed
   from QlassF.to_bqm / decode_samples routed through the pyqubo stub.
   Every function returns the list of failing case ids. *)
From Coq Require Import List Bool NArith ZArith Arith.
From QV Require Import Bits Bexp BexpTT M_Codec Chk_Codec M_Bqm.
Import ListNotations.
Local Open Scope N_scope.

Definition failing_ids {A} (ok : A -> bool) (l : list (N * A)) : list N :=
  map fst (filter (fun x => negb (ok (snd x))) l).

(* all assignment numbers 0 .. 2^k - 1 *)
Fixpoint all_asg (k : nat) : list N :=
  match k with
  | O => [0]
  | S k' => let l := all_asg k' in l ++ map (fun x => x + 2 ^ N.of_nat k') l
  end.

(* position of a variable in a list; assignment of the listed variables from the bits of x *)
Fixpoint aux_index (i : nat) (auxs : list nat) (k : N) : option N :=
  match auxs with
  | [] => None
  | a :: r => if Nat.eqb a i then Some k else aux_index i r (k + 1)
  end.
Definition list_env (vs : list nat) (x : N) : nat -> Z :=
  fun i => b2z (match aux_index i vs 0 with Some k => N.testbit x k | None => false end).

(* 1. the tree handed to pyqubo has, on EVERY assignment of the variables occurring
      in either, the energy of the model's polynomial (model = fixed to_bqm on the
      merged list); both raise, or neither *)
Definition poly_agree (a b : option poly) : bool :=
  match a, b with
  | Some p, Some q =>
      let vs := nodup Nat.eq_dec (pvars p ++ pvars q) in
      forallb (fun x => Z.eqb (peval (list_env vs x) p) (peval (list_env vs x) q)) (all_asg (List.length vs))
  | None, None => true
  | _, _ => false
  end.
Definition poly_ok (c : nat * defs * option poly) : bool :=
  match c with (nv, merged, obs) => poly_agree (to_bqm_fixed merged) obs end.
Definition chk_poly := failing_ids poly_ok.
Definition poly_today_ok (c : nat * defs * option poly) : bool :=
  match c with (nv, merged, obs) => poly_agree (to_bqm_today merged) obs end.
Definition chk_poly_today := failing_ids poly_today_ok.

(* 2. the property, directly on the observed tree: n argument bits (variables 0..n-1),
      nv variables in all (the others are auxiliaries, minimised over);
      minimisers = inputs with the fewest true return bits; minimum 0 iff a zero exists *)
Definition count_rets (tbl : list N) (rets : list nat) (x : N) : Z :=
  fold_right (fun r acc => (b2z (N.testbit (tenv tbl r) x) + acc)%Z) 0%Z rets.

Definition zmin (l : list Z) : Z :=
  match l with [] => 0%Z | a :: r => fold_left Z.min r a end.

(* variables 0..n-1 read from x; the auxiliaries listed in [auxs] read from y *)
Definition aux_env (n : nat) (auxs : list nat) (x y : N) : nat -> Z :=
  fun i => b2z (if Nat.ltb i n then N.testbit x (N.of_nat i)
                else match aux_index i auxs 0 with Some k => N.testbit y k | None => false end).

Definition min_energy (n : nat) (auxs : list nat) (p : poly) (x : N) : Z :=
  zmin (map (fun y => peval (aux_env n auxs x y) p) (all_asg (List.length auxs))).

Definition ground_ok (c : nat * list nat * defs * list nat * poly) : bool :=
  match c with (n, auxs, exprs, rets, p) =>
    let xs := all_asg n in
    let es := map (min_energy n auxs p) xs in
    let tbl := run_defs_tt (tt_mask n) (input_tables n) exprs in
    let cs := map (count_rets tbl rets) xs in
    let emin := zmin es in
    let cmin := zmin cs in
    forallb (fun ec => Bool.eqb (Z.eqb (fst ec) emin) (Z.eqb (snd ec) cmin)) (combine es cs) &&
    Bool.eqb (Z.eqb emin 0) (Z.eqb cmin 0) &&
    forallb (fun i => Nat.ltb i n || existsb (Nat.eqb i) auxs) (pvars p)
  end.
Definition chk_ground := failing_ids ground_ok.

(* 3. contract of the merge_expressions oracle: one entry per return symbol, in
      order, each over the argument bits and equal to the symbol's value *)
Fixpoint list_nat_eqb (a b : list nat) : bool :=
  match a, b with
  | [], [] => true
  | x :: a', y :: b' => Nat.eqb x y && list_nat_eqb a' b'
  | _, _ => false
  end.
Definition merge_ok (c : nat * defs * defs * list nat) : bool :=
  match c with (n, exprs, merged, rets) =>
    let m := tt_mask n in
    let tbl := run_defs_tt m (input_tables n) exprs in
    list_nat_eqb (map fst merged) rets &&
    forallb (fun se => syms_below n (snd se) &&
                       (tt_diff m (tt_eval m (tenv (input_tables n)) (snd se)) (tenv tbl (fst se)) =? 0)) merged
  end.
Definition chk_merge := failing_ids merge_ok.

(* ---- one record per program, shared by the three checks above (the terms are large:
        they are written once) ----
   n argument bits; auxiliaries of the observed tree; expression list; merged list;
   return symbols; observed tree (None: to_bqm raised); whether the all-inputs checks
   (truth tables over n bits, ground states) are within budget *)
Definition bqm_case := (nat * list nat * defs * defs * list nat * option poly * (bool * bool))%type.

Definition case_poly_ok (c : bqm_case) : bool :=
  match c with (n, auxs, exprs, merged, rets, obs, flags) => poly_agree (to_bqm_fixed merged) obs end.
Definition case_poly_today_ok (c : bqm_case) : bool :=
  match c with (n, auxs, exprs, merged, rets, obs, flags) => poly_agree (to_bqm_today merged) obs end.
Definition case_ground_ok (c : bqm_case) : bool :=
  match c with (n, auxs, exprs, merged, rets, obs, (do_merge, do_ground)) =>
    match obs with
    | Some p => if do_ground then ground_ok (n, auxs, exprs, rets, p) else true
    | None => true
    end
  end.
Definition case_merge_ok (c : bqm_case) : bool :=
  match c with (n, auxs, exprs, merged, rets, obs, (do_merge, do_ground)) =>
    if do_merge then merge_ok (n, exprs, merged, rets) else true
  end.
Definition chk_case_poly := failing_ids case_poly_ok.
Definition chk_case_poly_today := failing_ids case_poly_today_ok.
Definition chk_case_ground := failing_ids case_ground_ok.
Definition chk_case_merge := failing_ids case_merge_ok.

(* 4. decode_samples, per argument: type, the sample's bits in bitvec order, value returned *)
Definition decode_ok (c : ty * list bool * option val) : bool :=
  match c with (t, bits, obs) => opt_val_eqb (decode_arg t bits) obs end.
Definition chk_decode := failing_ids decode_ok.
